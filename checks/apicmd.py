"""Shared scenario for C04 / C11 / C02(B): a public control call on API objects built by the real
handshake against the scripted console, with the configuration and arguments symbolic."""
from __future__ import annotations

import datetime
import importlib

from ref import at4 as r4
from ref import at5 as r5
from ref import framing
from sx import shims
from sx.values import SymBool, SymInt, sym_and, sym_not, sym_or

from .common import ApiRig, Gen
from .console import Installation

AC_CALLS = ["ac_power", "ac_mode", "ac_fan", "ac_temp", "ac_timer_duration", "ac_timer_time", "ac_timer_clear", "check_updates"]
ZONE_CALLS = ["zone_power", "zone_temp", "zone_damper"]


def api():
    return importlib.import_module("pyairtouch.api")


def instances(tier):
    out = []
    for g in (4, 5):
        for call in AC_CALLS + ZONE_CALLS:
            out.append({"gen": g, "call": call, "vary": "config"})
        # addressing: every AC number / zone number with a fixed simple configuration
        out.append({"gen": g, "call": "ac_power", "vary": "ac_number"})
        out.append({"gen": g, "call": "ac_temp", "vary": "ac_number"})
        out.append({"gen": g, "call": "zone_power", "vary": "zone_number"})
        out.append({"gen": g, "call": "zone_damper", "vary": "zone_number"})
        out.append({"gen": g, "call": "zone_temp", "vary": "zone_number"})
        out.append({"gen": g, "call": "ac_timer_clear", "vary": "ac_number"})
    # AT5 zone set-points beyond what the protocol field can carry (10.0 .. 35.0 degC): whatever the client does with such a
    # request, it must not transmit a frame that means a different temperature
    out.append({"gen": 5, "call": "zone_temp", "vary": "beyond_field"})
    if tier == "thorough":
        have = {(q["gen"], q["call"], q["vary"]) for q in out}
        for g in (4, 5):
            for call in AC_CALLS:
                if call != "check_updates" and (g, call, "ac_number") not in have:
                    out.append({"gen": g, "call": call, "vary": "ac_number"})
            for call in ZONE_CALLS:
                if (g, call, "zone_number") not in have:
                    out.append({"gen": g, "call": call, "vary": "zone_number"})
            # both ability bitmaps free at once (2^12 / 2^13 advertised combinations)
            out.append({"gen": g, "call": "ac_mode", "vary": "config", "deep": True})
            out.append({"gen": g, "call": "ac_fan", "vary": "config", "deep": True})
    return out


def scenario(ctx, p):
    """Runs the call. Returns dict with raised, frames (after the call), env."""
    A = api()
    g = Gen(p["gen"])
    call = p["call"]
    vary = p["vary"]
    env = {}
    n_ac = 4 if g.n == 4 else 16
    a = ctx.choice("ac", n_ac) if vary == "ac_number" else 1
    z = ctx.choice("zone", 16) if vary == "zone_number" else 3
    env["ac"], env["zone"] = a, z
    inst = Installation(g.n)
    deep = bool(p.get("deep"))
    mode_bits = ctx.bits("mode_bits", 5) if ((call == "ac_mode" or deep) and vary == "config") else 0b11111
    fan_bits = ctx.bits("fan_bits", 7 if g.n == 4 else 8) if ((call == "ac_fan" or deep) and vary == "config") else (0x7F if g.n == 4 else 0xFF)
    if call == "ac_temp" and vary == "config":
        if g.n == 4:
            lo = ctx.int("min_sp", 0, 62)
            hi = ctx.int("max_sp", 0, 62)
            ctx.assume(lo <= hi)
            limits = (lo, hi)
        else:
            lc, hc = ctx.int("min_cool", 10, 35), ctx.int("max_cool", 10, 35)
            lh, hh = ctx.int("min_heat", 10, 35), ctx.int("max_heat", 10, 35)
            ctx.assume(sym_and(lc <= hc, lh <= hh))
            limits = (lc, hc, lh, hh)
    else:
        limits = (16, 30) if g.n == 4 else (16, 30, 17, 31)
    env.update(mode_bits=mode_bits, fan_bits=fan_bits, limits=limits)
    inst.acs.append({"number": a, "name": "AC", "start": z, "count": 1, "mode_bits": mode_bits, "fan_bits": fan_bits, "limits": limits,
                     "group_bits": (1 << z) if g.n == 4 else None})
    inst.zones[z] = "Zone"
    sensor = ctx.bits("sensor", 1) if (call == "zone_temp" and vary == "config") else 1
    turbo = ctx.bits("turbo", 1) if (call == "zone_power" and vary == "config" and g.n == 4) else 1
    env.update(sensor=sensor, turbo=turbo)
    if g.n == 4:
        inst.zone_status[z] = r4.build_group_status(z, 1, 1, 50, 0, turbo, 22, sensor, 730, 0)
    else:
        inst.zone_status[z] = r5.build_zone_status(z, 1, 1, 50, 120, sensor, 730, 0, 0)
    # current mode (AT5 limits follow the mode)
    if call == "ac_temp" and vary == "config" and g.n == 5:
        mode_code = ctx.int("mode_code", 0, 9)
        ctx.assume(sym_or(*[mode_code == c for c in r5.AC_MODE]))
    else:
        mode_code = 4
    env["mode_code"] = mode_code
    if g.n == 4:
        inst.ac_status[a] = r4.build_ac_status(a, 1, mode_code, 2, 0, 0, 22, 740, 0)
    else:
        inst.ac_status[a] = r5.build_ac_status(a, 1, mode_code, 2, 120, 0, 0, 0, 0, 740, 0)
    # last reported timers
    if call in ("ac_timer_time", "ac_timer_clear") and vary == "config":
        tm = (ctx.bits("on_dis", 1), ctx.int("on_h", 0, 23), ctx.int("on_m", 0, 59), ctx.bits("off_dis", 1), ctx.int("off_h", 0, 23), ctx.int("off_m", 0, 59))
    else:
        tm = (0, 6, 30, 1, 0, 0)
    env["timers"] = tm
    inst.timers[a] = tm

    # arguments
    args = {}
    if call == "ac_power":
        members = list(A.AcPowerControl)
        args["pc"] = members[ctx.choice("arg", len(members))]
    elif call == "ac_mode":
        members = list(A.AcMode)
        args["mode"] = members[ctx.choice("arg", len(members))]
        args["power_on"] = bool(ctx.choice("power_on", 2))
    elif call == "ac_fan":
        members = list(A.AcFanSpeed)
        args["fs"] = members[ctx.choice("arg", len(members))]
    elif call == "zone_temp":
        # zone set-points have no advertised limits: the admissible domain is what the protocol field can carry
        D = p.get("grid", 20)
        if vary == "beyond_field":
            j = ctx.int("j", 0, 60 * D)
            ctx.assume(sym_or(j < 10 * D, j > 35 * D))
        else:
            j = ctx.int("j", 0, 60 * D) if g.n == 4 else ctx.int("j", 10 * D, 35 * D)
        args["j"], args["D"] = j, D
        args["t"] = j / float(D)
    elif call == "ac_temp":
        D = p.get("grid", 20)
        j = ctx.int("j", -10 * D, 60 * D)         # temperature j/D: a grid across and beyond the limits
        args["j"], args["D"] = j, D
        args["t"] = j / float(D)
    elif call == "ac_timer_duration":
        members = list(A.AcTimerType)
        args["tt"] = members[ctx.choice("arg", 2)]
        mins = ctx.int("mins", 0, 3 * 1440 - 1)
        secs = ctx.int("secs", 0, 59)              # durations are not whole minutes in general
        args["mins"], args["secs"] = mins, secs
        args["value"] = shims.SxTimedelta.symbolic(mins * 60 + secs) if ctx.symbolic else datetime.timedelta(minutes=mins, seconds=secs)
    elif call == "ac_timer_time":
        members = list(A.AcTimerType)
        args["tt"] = members[ctx.choice("arg", 2)]
        h, m = ctx.int("h", 0, 23), ctx.int("m", 0, 59)
        args["h"], args["m"] = h, m
        args["value"] = shims.SxTime(h, m) if ctx.symbolic else datetime.time(h, m)
    elif call == "ac_timer_clear":
        members = list(A.AcTimerType)
        args["tt"] = members[ctx.choice("arg", 2)]
    elif call == "zone_power":
        members = list(A.ZonePowerState)
        args["ps"] = members[ctx.choice("arg", len(members))]
    elif call == "zone_damper":
        args["pct"] = ctx.int("pct", -5, 105)
    env["args"] = args

    out = {"env": env, "raised": None, "frames": None, "init": None, "gen": g.n}
    with ApiRig(ctx, g, inst) as rig:
        rig.start()
        rig.run(1.0)
        out["init"] = rig.init_result
        if rig.init_result is not True:
            return out
        con = rig.console
        n0 = len(con.requests)
        ac = rig.ac(a)
        zone = rig.zone(z)
        res = {}

        async def go():
            try:
                if call == "ac_power":
                    await ac.set_power(args["pc"])
                elif call == "ac_mode":
                    await ac.set_mode(args["mode"], power_on=args["power_on"])
                elif call == "ac_fan":
                    await ac.set_fan_speed(args["fs"])
                elif call == "ac_temp":
                    await ac.set_target_temperature(args["t"])
                elif call in ("ac_timer_duration", "ac_timer_time"):
                    await ac.set_quick_timer(args["tt"], args["value"])
                elif call == "ac_timer_clear":
                    await ac.clear_quick_timer(args["tt"])
                elif call == "check_updates":
                    await rig.at.check_for_updates()
                elif call == "zone_power":
                    await zone.set_power(args["ps"])
                elif call == "zone_temp":
                    await zone.set_target_temperature(args["t"])
                elif call == "zone_damper":
                    await zone.set_damper_percentage(args["pct"])
                res["r"] = None
            except ValueError:
                res["r"] = "ValueError"
            except Exception as e:  # noqa: BLE001
                res["r"] = type(e).__name__

        rig.spawn(go())
        rig.run(2.0)
        out["raised"] = res.get("r", "did-not-finish")
        out["frames"] = [fr for _, _, fr in con.requests[n0:]]
        out["kinds"] = [k for _, k, _ in con.requests[n0:]]
        out["failures"] = rig.task_failures()
    return out
