"""Shared scenario for C04 / C11 / C02(B): a public control call on API objects built by the real
handshake against the scripted console, with the configuration and arguments symbolic."""
from __future__ import annotations

import datetime
import importlib

from ref import at4 as r4
from ref import at5 as r5
from ref import framing
from sx import shims
from sx.values import SymBool, SymInt, sym_and, sym_not, sym_or

from .common import ApiRig, Gen
from .console import Installation

AC_CALLS = ["ac_power", "ac_mode", "ac_fan", "ac_temp", "ac_timer_duration", "ac_timer_time", "ac_timer_clear", "check_updates"]
ZONE_CALLS = ["zone_power", "zone_temp", "zone_damper"]


def api():
    return importlib.import_module("pyairtouch.api")


def instances(tier):
    out = []
    for g in (4, 5):
        for call in AC_CALLS + ZONE_CALLS:
            out.append({"gen": g, "call": call, "vary": "config"})
        # addressing: every AC number / zone number with a fixed simple configuration
        out.append({"gen": g, "call": "ac_power", "vary": "ac_number"})
        out.append({"gen": g, "call": "ac_temp", "vary": "ac_number"})
        out.append({"gen": g, "call": "zone_power", "vary": "zone_number"})
        out.append({"gen": g, "call": "zone_damper", "vary": "zone_number"})
        out.append({"gen": g, "call": "zone_temp", "vary": "zone_number"})
        out.append({"gen": g, "call": "ac_timer_clear", "vary": "ac_number"})
    # AT5 zone set-points beyond what the protocol field can carry (10.0 .. 35.0 degC): whatever the client does with such a
    # request, it must not transmit a frame that means a different temperature
    out.append({"gen": 5, "call": "zone_temp", "vary": "beyond_field"})
    out.append({"gen": 4, "call": "zone_temp", "vary": "beyond_field"})
    if tier == "thorough":
        have = {(q["gen"], q["call"], q["vary"]) for q in out}
        for g in (4, 5):
            for call in AC_CALLS:
                if call != "check_updates" and (g, call, "ac_number") not in have:
                    out.append({"gen": g, "call": call, "vary": "ac_number"})
            for call in ZONE_CALLS:
                if (g, call, "zone_number") not in have:
                    out.append({"gen": g, "call": call, "vary": "zone_number"})
            # both ability bitmaps free at once (2^12 / 2^13 advertised combinations)
            out.append({"gen": g, "call": "ac_mode", "vary": "config", "deep": True})
            out.append({"gen": g, "call": "ac_fan", "vary": "config", "deep": True})
    return out


def scenario(ctx, p):
    """Runs the call. Returns dict with raised, frames (after the call), env."""
    A = api()
    g = Gen(p["gen"])
    call = p["call"]
    vary = p["vary"]
    env = {}
    n_ac = 4 if g.n == 4 else 16
    a = ctx.choice("ac", n_ac) if vary == "ac_number" else 1
    z = ctx.choice("zone", 16) if vary == "zone_number" else 3
    env["ac"], env["zone"] = a, z
    inst = Installation(g.n)
    deep = bool(p.get("deep"))
    mode_bits = ctx.bits("mode_bits", 5) if ((call == "ac_mode" or deep) and vary == "config") else 0b11111
    fan_bits = ctx.bits("fan_bits", 7 if g.n == 4 else 8) if ((call == "ac_fan" or deep) and vary == "config") else (0x7F if g.n == 4 else 0xFF)
    if call == "ac_temp" and vary == "config":
        if g.n == 4:
            lo = ctx.int("min_sp", 0, 62)
            hi = ctx.int("max_sp", 0, 62)
            ctx.assume(lo <= hi)
            limits = (lo, hi)
        else:
            lc, hc = ctx.int("min_cool", 10, 35), ctx.int("max_cool", 10, 35)
            lh, hh = ctx.int("min_heat", 10, 35), ctx.int("max_heat", 10, 35)
            ctx.assume(sym_and(lc <= hc, lh <= hh))
            limits = (lc, hc, lh, hh)
    else:
        limits = (16, 30) if g.n == 4 else (16, 30, 17, 31)
    env.update(mode_bits=mode_bits, fan_bits=fan_bits, limits=limits)
    inst.acs.append({"number": a, "name": "AC", "start": z, "count": 1, "mode_bits": mode_bits, "fan_bits": fan_bits, "limits": limits,
                     "group_bits": (1 << z) if g.n == 4 else None})
    inst.zones[z] = "Zone"
    sensor = ctx.bits("sensor", 1) if (call == "zone_temp" and vary == "config") else 1
    turbo = ctx.bits("turbo", 1) if (call == "zone_power" and vary == "config" and g.n == 4) else 1
    env.update(sensor=sensor, turbo=turbo)
    if g.n == 4:
        inst.zone_status[z] = r4.build_group_status(z, 1, 1, 50, 0, turbo, 22, sensor, 730, 0)
    else:
        inst.zone_status[z] = r5.build_zone_status(z, 1, 1, 50, 120, sensor, 730, 0, 0)
    # current mode (AT5 limits follow the mode)
    if call == "ac_temp" and vary == "config":
        # the mode last reported is free (AT5 limits follow it; an AT4 set-point request does not depend on it)
        mode_code = ctx.int("mode_code", 0, 9)
        ctx.assume(sym_or(*[mode_code == c for c in (r5.AC_MODE if g.n == 5 else r4.AC_MODE)]))
    else:
        mode_code = 4
    env["mode_code"] = mode_code
    if g.n == 4:
        inst.ac_status[a] = r4.build_ac_status(a, 1, mode_code, 2, 0, 0, 22, 740, 0)
    else:
        # (for mode changes the reported set-point, 16.0, lies inside the cooling range and outside the heating range 17..31)
        inst.ac_status[a] = r5.build_ac_status(a, 1, mode_code, 2, 60 if call == "ac_mode" else 120, 0, 0, 0, 0, 740, 0)
    # last reported timers
    if call in ("ac_timer_time", "ac_timer_clear") and vary == "config":
        tm = (ctx.bits("on_dis", 1), ctx.int("on_h", 0, 23), ctx.int("on_m", 0, 59), ctx.bits("off_dis", 1), ctx.int("off_h", 0, 23), ctx.int("off_m", 0, 59))
    else:
        tm = (0, 6, 30, 1, 0, 0)
    env["timers"] = tm
    inst.timers[a] = tm

    # arguments
    args = {}
    if call == "ac_power":
        members = list(A.AcPowerControl)
        args["pc"] = members[ctx.choice("arg", len(members))]
    elif call == "ac_mode":
        members = list(A.AcMode)
        args["mode"] = members[ctx.choice("arg", len(members))]
        args["power_on"] = bool(ctx.choice("power_on", 2))
    elif call == "ac_fan":
        members = list(A.AcFanSpeed)
        args["fs"] = members[ctx.choice("arg", len(members))]
    elif call == "zone_temp":
        # zone set-points have no advertised limits: the admissible domain is what the protocol field can carry
        D = p.get("grid", 20)
        if vary == "beyond_field" and g.n == 4:
            j = ctx.int("j", -20 * D, 300 * D)          # AT4: the field is one byte of whole degrees
            ctx.assume(sym_or(j < -1 * D, j > 256 * D))
        elif vary == "beyond_field":
            j = ctx.int("j", 0, 60 * D)
            ctx.assume(sym_or(j < 10 * D, j > 35 * D))
        else:
            j = ctx.int("j", 0, 60 * D) if g.n == 4 else ctx.int("j", 10 * D, 35 * D)
        args["j"], args["D"] = j, D
        args["t"] = j / float(D)
    elif call == "ac_temp":
        D = p.get("grid", 20)
        j = ctx.int("j", -10 * D, 60 * D)         # temperature j/D: a grid across and beyond the limits
        args["j"], args["D"] = j, D
        args["t"] = j / float(D)
    elif call == "ac_timer_duration":
        members = list(A.AcTimerType)
        args["tt"] = members[ctx.choice("arg", 2)]
        mins = ctx.int("mins", 0, 3 * 1440 - 1)
        secs = ctx.int("secs", 0, 59)              # durations are not whole minutes in general
        args["mins"], args["secs"] = mins, secs
        args["value"] = shims.SxTimedelta.symbolic(mins * 60 + secs) if ctx.symbolic else datetime.timedelta(minutes=mins, seconds=secs)
    elif call == "ac_timer_time":
        members = list(A.AcTimerType)
        args["tt"] = members[ctx.choice("arg", 2)]
        h, m = ctx.int("h", 0, 23), ctx.int("m", 0, 59)
        args["h"], args["m"] = h, m
        args["value"] = shims.SxTime(h, m) if ctx.symbolic else datetime.time(h, m)
    elif call == "ac_timer_clear":
        members = list(A.AcTimerType)
        args["tt"] = members[ctx.choice("arg", 2)]
    elif call == "zone_power":
        members = list(A.ZonePowerState)
        args["ps"] = members[ctx.choice("arg", len(members))]
    elif call == "zone_damper":
        args["pct"] = ctx.int("pct", -5, 105)
    env["args"] = args

    out = {"env": env, "raised": None, "frames": None, "init": None, "gen": g.n}
    with ApiRig(ctx, g, inst) as rig:
        rig.start()
        rig.run(1.0)
        out["init"] = rig.init_result
        if rig.init_result is not True:
            return out
        con = rig.console
        n0 = len(con.requests)
        ac = rig.ac(a)
        zone = rig.zone(z)
        res = {}

        async def go():
            try:
                if call == "ac_power":
                    await ac.set_power(args["pc"])
                elif call == "ac_mode":
                    await ac.set_mode(args["mode"], power_on=args["power_on"])
                elif call == "ac_fan":
                    await ac.set_fan_speed(args["fs"])
                elif call == "ac_temp":
                    await ac.set_target_temperature(args["t"])
                elif call in ("ac_timer_duration", "ac_timer_time"):
                    await ac.set_quick_timer(args["tt"], args["value"])
                elif call == "ac_timer_clear":
                    await ac.clear_quick_timer(args["tt"])
                elif call == "check_updates":
                    await rig.at.check_for_updates()
                elif call == "zone_power":
                    await zone.set_power(args["ps"])
                elif call == "zone_temp":
                    await zone.set_target_temperature(args["t"])
                elif call == "zone_damper":
                    await zone.set_damper_percentage(args["pct"])
                res["r"] = None
            except ValueError:
                res["r"] = "ValueError"
            except Exception as e:  # noqa: BLE001
                res["r"] = type(e).__name__

        rig.spawn(go())
        rig.run(2.0)
        out["raised"] = res.get("r", "did-not-finish")
        out["frames"] = [fr for _, _, fr in con.requests[n0:]]
        out["kinds"] = [k for _, k, _ in con.requests[n0:]]
        out["failures"] = rig.task_failures()
    return out


def sequence_instances(tier):
    """Call histories on one client (both generations): what a frame carries depends only on the call and on what the console
    last reported, never on what this client sent before."""
    out = []
    for g in (4, 5):
        out.append({"kind": "call_sequence", "gen": g, "what": "timers_two_acs", "call": "sequence", "vary": "history"})
        out.append({"kind": "call_sequence", "gen": g, "what": "zone_calls_held", "call": "sequence", "vary": "history"})
        out.append({"kind": "call_sequence", "gen": g, "what": "ac_calls_held", "call": "sequence", "vary": "history"})
    return out


def run_sequence(ctx, p, label):
    """Runs a two-call history and checks both frames against the reference reading. Returns nothing; obligations carry `label`."""
    A = api()
    g = Gen(p["gen"])
    what = p["what"]
    inst = Installation.simple(g.n, n_acs=2, zones_per_ac=2)
    inst.timers = {0: (0, 6, 30, 1, 0, 0), 1: (1, 0, 0, 0, 21, 45)}
    held = what.endswith("_held")
    from ref import at4 as r4
    from ref import at5 as r5
    with ApiRig(ctx, g, inst) as rig:
        rig.start()
        rig.run(1.0)
        ctx.check(rig.init_result is True, label, detail="handshake failed")
        con = rig.console
        mode = {"accept": True}
        rig.net.on_connect = lambda net, n: (("accept", 0) if mode["accept"] else ("refuse",))
        if held:
            # the link goes down; both commands are accepted while it is down and go out together when it is back
            mode["accept"] = False
            rig.net.current().reset()
            rig.run(1.5)
        n0 = len(con.requests)
        if what == "timers_two_acs":
            types = list(A.AcTimerType)
            acs = (ctx.choice("first_ac", 2), ctx.choice("second_ac", 2))
            tts = (types[ctx.choice("first_type", 2)], types[ctx.choice("second_type", 2)])
            sets = (bool(ctx.choice("first_set", 2)), bool(ctx.choice("second_set", 2)))
            times = ((7, 15), (22, 40))

            async def go():
                for i in range(2):
                    a = rig.ac(acs[i])
                    if sets[i]:
                        await a.set_quick_timer(tts[i], datetime.time(*times[i]))
                    else:
                        await a.clear_quick_timer(tts[i])
            rig.spawn(go())
            rig.run(3.0)
            frames = [fr for _, k, fr in con.requests[n0:] if k == "timer_ctrl"]
            detail = {"what": what, "acs": acs, "types": [t.name for t in tts], "set": sets, "frames": len(frames)}
            ctx.check(len(frames) == 2, label, detail=detail)
            for i, fr in enumerate(frames[:2]):
                rep = inst.timers[acs[i]]
                new = (0,) + times[i] if sets[i] else (1, 0, 0)
                on, off = (new, rep[3:6]) if tts[i] is A.AcTimerType.ON_TIMER else (rep[0:3], new)
                exp = [(on[0] << 7) | on[1], on[2], (off[0] << 7) | off[1], off[2]]
                data = [int(b) for b in fr["data"]]
                if g.n == 4:
                    want = [0] * 32
                    want[8 * acs[i]:8 * acs[i] + 4] = exp
                    ok = data == want
                else:
                    ok = data[8:] == [acs[i]] + exp + [0, 0, 0, 0] and len(data) == 17
                ctx.check(ok, label, detail=dict(detail, frame=i, data=bytes(data).hex()))
            return
        if what == "zone_calls_held":
            calls = ("power_on", "damper", "temp", "power_off")
            ci = (ctx.choice("first_call", 4), ctx.choice("second_call", 4))
            zs = (ctx.choice("first_zone", 2), ctx.choice("second_zone", 2))

            async def one(i):
                z = rig.zone(zs[i])
                c = calls[ci[i]]
                if c == "power_on":
                    await z.set_power(A.ZonePowerState.ON)
                elif c == "power_off":
                    await z.set_power(A.ZonePowerState.OFF)
                elif c == "damper":
                    await z.set_damper_percentage(40 + 15 * i)
                else:
                    await z.set_target_temperature(21 + 2 * i)

            async def go():
                await one(0)
                await one(1)
            rig.spawn(go())
            rig.run(2.0)
            mode["accept"] = True
            rig.run(6.0)
            frames = [fr for _, k, fr in con.requests[n0:] if k == "zone_ctrl"]
            detail = {"what": what, "calls": [calls[c] for c in ci], "zones": zs, "frames": len(frames)}
            ctx.check(len(frames) == 2, label, detail=detail)
            for i, fr in enumerate(frames[:2]):
                d = [int(b) for b in fr["data"]]
                c = r4.group_control(d) if g.n == 4 else r5.zone_control_record(d[8:12])
                num = c["group_number"] if g.n == 4 else c["zone_number"]
                PW = r4.CTRL_GROUP_POWER if g.n == 4 else r5.CTRL_ZONE_POWER
                ST = r4.CTRL_GROUP_SETTING if g.n == 4 else r5.CTRL_ZONE_SETTING
                power = PW.get(c["power_code"], "KEEP")
                setting = ST.get(c["setting_code"], "KEEP")
                name = calls[ci[i]]
                if name == "power_on":
                    ok = power == "TURN_ON" and setting == "KEEP"
                elif name == "power_off":
                    ok = power == "TURN_OFF" and setting == "KEEP"
                elif name == "damper":
                    ok = power == "KEEP" and c["setting_code"] == 4 and c["value"] == 40 + 15 * i
                else:
                    t = 21 + 2 * i
                    ok = power == "KEEP" and c["setting_code"] == 5 and c["value"] == (t if g.n == 4 else t * 10 - 100)
                ctx.check(ok and num == zs[i], label, detail=dict(detail, frame=i, read=dict(number=num, power=power, setting=setting, value=c["value"])))
            return
        # ac_calls_held
        calls = ("power_on", "mode_cool", "fan_low", "temp")
        ci = (ctx.choice("first_call", 4), ctx.choice("second_call", 4))
        acs = (ctx.choice("first_ac", 2), ctx.choice("second_ac", 2))

        async def one(i):
            a = rig.ac(acs[i])
            c = calls[ci[i]]
            if c == "power_on":
                await a.set_power(A.AcPowerControl.TURN_ON)
            elif c == "mode_cool":
                await a.set_mode(A.AcMode.COOL, power_on=False)
            elif c == "fan_low":
                await a.set_fan_speed(A.AcFanSpeed.LOW)
            else:
                await a.set_target_temperature(20 + 3 * i)

        async def go():
            await one(0)
            await one(1)
        rig.spawn(go())
        rig.run(2.0)
        mode["accept"] = True
        rig.run(6.0)
        frames = [fr for _, k, fr in con.requests[n0:] if k == "ac_ctrl"]
        detail = {"what": what, "calls": [calls[c] for c in ci], "acs": acs, "frames": len(frames)}
        ctx.check(len(frames) == 2, label, detail=detail)
        for i, fr in enumerate(frames[:2]):
            d = [int(b) for b in fr["data"]]
            if g.n == 4:
                c = r4.ac_control(d)
                sp = ("set", c["sp_value"]) if c["sp_type"] == 1 else ("keep",) if c["sp_type"] == 0 else ("other", c["sp_type"])
                tabs = (r4.CTRL_AC_POWER, r4.CTRL_AC_MODE, r4.CTRL_AC_FAN)
            else:
                c = r5.ac_control_record(d[8:12])
                sp = ("set", (c["sp_value"] + 100) // 10) if c["sp_control"] == 0x40 else ("keep",)
                tabs = (r5.CTRL_AC_POWER, r5.CTRL_AC_MODE, r5.CTRL_AC_FAN)
            power, md, fan = tabs[0].get(c["power_code"], "KEEP"), tabs[1].get(c["mode_code"], "KEEP"), tabs[2].get(c["fan_code"], "KEEP")
            name = calls[ci[i]]
            want = {"power_on": ("TURN_ON", "KEEP", "KEEP", ("keep",)), "mode_cool": ("KEEP", "COOL", "KEEP", ("keep",)),
                    "fan_low": ("KEEP", "KEEP", "LOW", ("keep",)), "temp": ("KEEP", "KEEP", "KEEP", ("set", 20 + 3 * i))}[name]
            ctx.check((power, md, fan, sp) == want and c["ac_number"] == acs[i], label,
                      detail=dict(detail, frame=i, read=dict(ac=c["ac_number"], power=power, mode=md, fan=fan, set_point=sp), want=want))
