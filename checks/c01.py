"""C01 — accepted commands reach the wire once each, in order, unsubstituted.

Real AirTouchSocket (send / queue / drain / connect / write), real registries, header
factories, header encoders, message encoders and CRC on a virtual loop. Send instants,
lifetimes, the instant the console starts accepting and the connect latency are z3 Reals:
one path = one ordering class of all instants. No write faults here (C02).
"""
from __future__ import annotations

from ref import framing
from sx.core import EngineUnsupported
from sx.values import SymBytes, SymInt, real_max, sym_and, sym_not, sym_or

from . import catalog
from .common import Gen, Rig, bytes_eq, socket_mod

PID = "C01"
WALL_BUDGET = {"quick": 900, "thorough": 7200}
SAMPLE_RATE = {"quick": 0.01, "thorough": 0.0005}
CHUNK = 48
STUBS = ["asyncio.open_connection -> FakeNet (refuses until attempt a, then accepts after a symbolic latency)",
         "writer.drain() returns at once, or (back-pressure instances) suspends for a symbolic delay",
         "loop -> VLoop (virtual time, symbolic instants)"]
OUTSIDE = ["more than 3 (quick) / 5 (thorough) sends with pairwise-symbolic timing", "write faults and resets (C02, C07)",
           "1..10 pending at a time is C16's inductive step", "instants beyond 7 s, lifetimes beyond 6 s", "back-pressure instances: a send at exactly the instant the connection completes"]
ASSUMPTIONS = ["packet counter: the inductive step sets the factory's counter attribute directly (guarded: missing attribute -> inconclusive)"]


def bounds(tier):
    return {"sends": 3 if tier == "quick" else 5, "send_instants": "[0,5] ordered, ties allowed", "lifetime": "(0,6]",
            "first_accepting_attempt": [0, 1, 2], "connect_latency": "[0,1.5]", "message_kinds": "catalogue rotation, see instances"}


def instances(tier):
    out = []
    for g in (4, 5):
        out.append({"kind": "counter_step", "gen": g})
        out.append({"kind": "counter_wrap", "gen": g})
    k = 3 if tier == "quick" else 4
    # timing exploration with identifiable command frames
    for g in (4, 5):
        for a in (0, 1, 2):
            out.append({"kind": "sends", "gen": g, "k": 2, "a": a, "cat": [3, 0], "bp": False})
        out.append({"kind": "sends", "gen": g, "k": k, "a": 1, "cat": [3, 17, 0, 5][:k], "bp": False})
        if tier == "thorough":
            out.append({"kind": "sends", "gen": g, "k": 5, "a": 1, "cat": [3, 17, 0, 5, 9], "bp": False})
            out.append({"kind": "sends", "gen": g, "k": 2, "a": 2, "cat": [3, 17], "bp": True})     # (the back-pressure oracle covers two messages)
            for anchor in ("accept", "write", "write_bp"):
                out.append({"kind": "turns", "gen": g, "k": 2, "anchor": anchor, "span": 24})
        # the same command submitted twice (equal message objects) must go out twice
        out.append({"kind": "sends", "gen": g, "k": 2, "a": 1, "cat": [3, 3], "bp": False, "dup": True})
        out.append({"kind": "sends", "gen": g, "k": 3, "a": 1, "cat": [0, 3, 0], "bp": False, "dup": True})
        out.append({"kind": "sends", "gen": g, "k": 2, "a": 0, "cat": [3, 17], "bp": True})
        out.append({"kind": "sends", "gen": g, "k": 2, "a": 1, "cat": [3, 17], "bp": True})
    # interleavings inside one instant: sends issued j loop turns after the connection is handed over / after the first
    # frame's write (the connect is completing, the held messages are being flushed, subscribers are being notified)
    for g in (4, 5):
        for anchor in ("accept", "write", "write_bp"):
            out.append({"kind": "turns", "gen": g, "k": 2 if tier == "quick" else 3, "anchor": anchor, "span": 10 if tier == "quick" else 8})
        # three messages are held; another one is sent while their flush is held up in drain(): it goes out behind them
        out.append({"kind": "turns", "gen": g, "k": 1, "anchor": "write_bp", "span": 10, "held": 3})
    # a slow console: the transport stalls for up to 25 s on a write (no fault): the command is still transmitted exactly once
    for g in (4, 5):
        out.append({"kind": "long_stall", "gen": g})
    # an unencodable message among the held ones does not keep the others from going out
    for g in (4, 5):
        out.append({"kind": "held_unencodable", "gen": g})
        # nine or ten messages (all the buffer holds) wait for the link, and a connection subscriber sends a request from inside
        # the 'connected' notification (as the API objects do) before the held ones are flushed
        out.append({"kind": "held_full_greeting", "gen": g})
    # every message class as first/second message (content check of the frame of *that* message)
    n = 18
    step = 3 if tier == "quick" else 1
    for g in (4, 5):
        for c in range(0, n, step):
            out.append({"kind": "sends", "gen": g, "k": 2, "a": 1, "cat": [c, (c + 7) % n], "bp": False, "narrow": True})
    return out


def expect_labels(tier):
    return ["counter.step", "counter.wrap", "sends.accepted", "sends.wire", "sends.contiguous"]


def run(ctx, p):
    k = p["kind"]
    if k == "counter_step":
        return _counter_step(ctx, p)
    if k == "counter_wrap":
        return _counter_wrap(ctx, p)
    if k == "turns":
        return _turns(ctx, p)
    if k == "held_unencodable":
        return _held_unencodable(ctx, p)
    if k == "long_stall":
        return _long_stall(ctx, p)
    if k == "held_full_greeting":
        return _held_full_greeting(ctx, p)
    return _sends(ctx, p)


def _long_stall(ctx, p):
    g = Gen(p["gen"])
    S = socket_mod()
    cat = catalog.catalog(g)
    stall = ctx.real("stall", 0, 25, lo_strict=True)
    res = {}
    with Rig(ctx, g) as rig:
        rig.net.on_drain = lambda conn, n: (stall if n == 1 else None)

        async def go():
            try:
                await rig.sock.send(cat[3][1](1), S.RetryPolicy(max_retries=2, max_lifetime=30.0))
                res["r"] = "ok"
            except Exception as e:  # noqa: BLE001
                res["r"] = type(e).__name__

        rig.spawn(rig.sock.open_socket())
        rig.loop.vt_call_at(0.5, lambda: rig.spawn(go()))
        rig.loop.vt_run(40.25)
        wire = [b for c in rig.net.conns for b in c.written()]
        exp = catalog.ref_frame(g.n, cat[3], 1, 0)
        detail = {"result": res.get("r"), "conns": len(rig.net.conns), "wire_len": len(wire), "expected_len": len(exp)}
        ctx.observe("conns", len(rig.net.conns))
        ctx.check(res.get("r") == "ok", "sends.accepted", detail=detail)
        ctx.check(bytes(wire) == bytes(exp) and len(rig.net.conns) == 1, "sends.wire", detail=detail)
        ctx.check(not rig.task_failures(), "sends.wire", detail="unhandled exception in a socket task")
    for lab in ("counter.step", "counter.wrap", "sends.contiguous"):
        ctx.reach(lab)


def _held_full_greeting(ctx, p):
    g = Gen(p["gen"])
    S = socket_mod()
    cat = catalog.catalog(g)
    n_held = (9, 10)[ctx.choice("held", 2)]
    lat = ctx.real("lat", 0, 1.5)
    results = {}
    with Rig(ctx, g) as rig:
        rig.net.on_connect = lambda net, n: ("accept", lat) if n >= 1 else ("refuse",)

        async def greeting(*, connected):
            if connected:
                try:
                    await rig.sock.send(cat[5][1](0), S.RETRY_CONNECTED)
                    results["greeting"] = "ok"
                except Exception as e:  # noqa: BLE001
                    results["greeting"] = type(e).__name__

        rig.sock.subscribe_on_connection_changed(greeting)

        async def go():
            for i in range(n_held):
                try:
                    await rig.sock.send(cat[3][1](i), S.RetryPolicy(max_retries=1, max_lifetime=30.0))
                    results[i] = "ok"
                except Exception as e:  # noqa: BLE001
                    results[i] = type(e).__name__

        rig.spawn(rig.sock.open_socket())
        rig.loop.vt_call_at(0.5, lambda: rig.spawn(go()))
        rig.loop.vt_run(12.25)
        detail = {"held": n_held, "results": {str(k): v for k, v in results.items()}}
        ctx.check(all(results.get(i) == "ok" for i in range(n_held)), "sends.accepted", detail=detail)
        wire = [int(b) for b in (rig.net.conns[0].written() if rig.net.conns else [])]
        from ref import framing
        frames = framing.parse_stream(g.n, wire)
        datas = [bytes(f["data"]) for f in frames]
        held_ref = [bytes(cat[3][3](i)) for i in range(n_held)]
        greet_ref = bytes(cat[5][3](0))
        ctx.observe("frames", len(frames))
        # every held message exactly once, in acceptance order; the greeting (if it was accepted) once, wherever it falls
        got_held = [d for d in datas if d != greet_ref]
        ctx.check(got_held == held_ref, "sends.wire", detail=dict(detail, frames=len(frames), held_on_wire=len(got_held)))
        ctx.check(datas.count(greet_ref) == (1 if results.get("greeting") == "ok" else 0), "sends.wire", detail=dict(detail, why="greeting", n=datas.count(greet_ref)))
        ctx.check(len(rig.net.conns) == 1 and not rig.task_failures(), "sends.wire", detail="connection disturbed / task failure")
    for lab in ("counter.step", "counter.wrap", "sends.contiguous"):
        ctx.reach(lab)


def _held_unencodable(ctx, p):
    """Three messages are accepted while the link is down, one of them (solver-chosen position and kind) cannot be encoded;
    as soon as the connection exists the other two are transmitted, once each, in acceptance order."""
    from . import c07
    g = Gen(p["gen"])
    S = socket_mod()
    cat = catalog.catalog(g)
    pos = ctx.choice("bad_position", 3)
    bad = (c07._unencodable, c07._unencodable_other)[ctx.choice("bad_kind", 2)](g)
    lat = ctx.real("lat", 0, 1.5)
    results = {}
    with Rig(ctx, g) as rig:
        rig.net.on_connect = lambda net, n: ("accept", lat) if n >= 1 else ("refuse",)
        msgs = [cat[3][1](1), cat[17][1](2)]
        seq = list(msgs)
        seq.insert(pos, bad)

        async def go():
            for i, m in enumerate(seq):
                try:
                    await rig.sock.send(m, S.RetryPolicy(max_retries=1, max_lifetime=30.0))
                    results[i] = "ok"
                except Exception as e:  # noqa: BLE001
                    results[i] = type(e).__name__

        rig.spawn(rig.sock.open_socket())
        rig.loop.vt_call_at(0.5, lambda: rig.spawn(go()))
        rig.loop.vt_run(12.25)
        detail = {"bad_position": pos, "results": dict(results)}
        ctx.check(all(results.get(i) == "ok" for i in range(3)), "sends.accepted", detail=detail)
        wire = rig.net.conns[0].written() if rig.net.conns else []
        pids = [i for i in range(3) if i != pos]
        exp = catalog.ref_frame(g.n, cat[3], 1, pids[0]) + catalog.ref_frame(g.n, cat[17], 2, pids[1])
        ctx.observe("wire_len", len(wire))
        ctx.check(bytes(wire) == bytes(exp), "sends.wire", detail=dict(detail, wire_len=len(wire), expected_len=len(exp)))
        t_conn = rig.net.conns[0].opened_at if rig.net.conns else None
        ctx.check(bool(rig.net.conns) and all(_bb(t == t_conn) for t, _ in rig.net.conns[0].writes), "sends.wire",
                  detail=dict(detail, why="not written as soon as the connection existed"))
        ctx.check(len(rig.net.conns) == 1 and not rig.task_failures(), "sends.wire", detail="connection disturbed / task failure")
    for lab in ("counter.step", "counter.wrap", "sends.contiguous"):
        ctx.reach(lab)


def _bb(x):
    from sx.values import SymBool
    return bool(x) if isinstance(x, SymBool) else x


def _turns(ctx, p):
    """One message is held while the console refuses; the console accepts at t = 2.0; k further sends are issued j_i loop
    turns after the anchor event, all at that same virtual instant. Every message goes out once, in acceptance order."""
    g = Gen(p["gen"])
    S = socket_mod()
    cat = catalog.catalog(g)
    k = p["k"]
    js = [ctx.choice(f"j{i}", p["span"]) for i in range(k)]
    order = []
    results = {}
    with Rig(ctx, g) as rig:
        rig.net.on_connect = lambda net, n: ("accept", 0) if n >= 1 else ("refuse",)
        if p["anchor"] == "write_bp":
            rig.net.on_drain = lambda conn, n: 0.5 if n == 1 else None       # the first frame's drain() is suspended (back-pressure)
        kinds = [3, 17, 0, 5]

        def sender(i):
            async def go():
                order.append(i)
                try:
                    await rig.sock.send(cat[kinds[i]][1](i + 1), S.RetryPolicy(max_retries=1, max_lifetime=30.0))
                    results[i] = "ok"
                except Exception as e:  # noqa: BLE001
                    results[i] = type(e).__name__
            return go

        def hop(n, fn):
            if n <= 0:
                fn()
            else:
                rig.loop.call_soon(hop, n - 1, fn)

        armed = {"on": True}

        def fire():
            if armed["on"]:
                armed["on"] = False
                for i in range(1, k + 1):
                    hop(js[i - 1], (lambda i=i: rig.spawn(sender(i)())))

        if p["anchor"] == "accept":
            rig.net.on_accept = lambda conn: fire()
        else:
            rig.net.on_write = lambda conn, data: fire()
        rig.spawn(rig.sock.open_socket())
        n_held = p.get("held", 1)
        if n_held == 1:
            rig.loop.vt_call_at(0.5, lambda: rig.spawn(sender(0)()))      # held while the console refuses
        else:
            # several held messages (numbered from 10 on so that the later sends keep their numbers 1..k)
            kinds = kinds + [0, 5, 9, 3, 17, 0, 5, 9, 3, 17]
            for h in range(n_held):
                rig.loop.vt_call_at(0.5 + 0.125 * h, (lambda h=h: rig.spawn(sender(0 if h == 0 else 9 + h)())))
        rig.loop.vt_run(9.25)
        detail = {"turns": js, "acceptance_order": list(order), "results": dict(results)}
        ctx.observe("order", list(order))
        ctx.check(all(v == "ok" for v in results.values()) and len(results) == k + n_held, "sends.accepted", detail=detail)
        ctx.check(len(rig.net.conns) == 1 and rig.net.max_open == 1, "sends.wire", detail=dict(detail, conns=len(rig.net.conns)))
        wire = rig.net.conns[0].written() if rig.net.conns else []
        exp = []
        for pos, i in enumerate(order):
            exp += catalog.ref_frame(g.n, cat[kinds[i]], i + 1, pos)
        ctx.check(bytes(wire) == bytes(exp), "sends.wire", detail=dict(detail, wire_len=len(wire), expected_len=len(exp)))
        ctx.check(not rig.task_failures(), "sends.wire", detail="unhandled exception in a socket task")
        for lab in ("counter.step", "counter.wrap", "sends.contiguous"):
            ctx.reach(lab)


def _counter_step(ctx, p):
    g = Gen(p["gen"])
    S = socket_mod()
    cat = catalog.catalog(g)
    entry = cat[3]
    x = ctx.byte("x")
    with Rig(ctx, g) as rig:
        f = g.reg.header_factory
        if not hasattr(f, "_next_packet_id"):
            raise EngineUnsupported("header factory has no _next_packet_id attribute (refactored): inductive step not applicable")
        f._next_packet_id = x

        async def go():
            await rig.sock.open_socket()
            await rig.sock.send(entry[1](1), S.RETRY_IDEMPOTENT)
            await rig.sock.send(entry[1](2), S.RETRY_IDEMPOTENT)

        rig.spawn(go())
        rig.loop.vt_run(1.25)
        wire = rig.net.conns[0].written() if rig.net.conns else []
        nxt = (x + 1) & 0xFF      # (x+1) mod 256
        exp = catalog.ref_frame(g.n, entry, 1, x) + catalog.ref_frame(g.n, entry, 2, nxt)
        ctx.check(bytes_eq(wire, exp), "counter.step")
        after = f._next_packet_id
        ctx.check(sym_and(after >= 0, after <= 255), "counter.step")


def _counter_wrap(ctx, p):
    """Concrete history past the 256-value counter (base case + wrap seen end to end)."""
    g = Gen(p["gen"])
    S = socket_mod()
    entry = catalog.catalog(g)[3]
    with Rig(ctx, g, stub_reader=False) as rig:
        n = 260

        async def go():
            import asyncio
            await rig.sock.open_socket()
            await asyncio.sleep(0.5)      # connected by now: nothing is held, every send is written at once
            for i in range(n):
                await rig.sock.send(entry[1](i % 4), S.RETRY_IDEMPOTENT)

        rig.spawn(go())
        rig.loop.vt_run(1.25)
        wire = rig.net.conns[0].written() if rig.net.conns else []
        exp = []
        for i in range(n):
            exp += catalog.ref_frame(g.n, entry, i % 4, i % 256)
        ctx.check(bytes(wire) == bytes(exp), "counter.wrap", detail={"frames": len(wire)})


def _sends(ctx, p):
    g = Gen(p["gen"])
    S = socket_mod()
    cat = catalog.catalog(g)
    k, a = p["k"], p["a"]
    narrow = p.get("narrow", False)
    # instants
    ts = []
    prev = 0
    for i in range(k):
        t = ctx.real(f"t{i}", 0, 5)
        if i:
            ctx.assume(t >= prev)
        ts.append(t)
        prev = t
    Ls = [ctx.real(f"L{i}", 0, 6, lo_strict=True) if not (narrow and i) else 30.0 for i in range(k)]
    retries = [((i * 2) % 3) for i in range(k)]
    lat = ctx.real("lat", 0, 1.5) if not narrow else 0.5
    bp_delay = ctx.real("bp", 0, 1.0, lo_strict=True) if p["bp"] else None
    Tc = 2.0 * a + lat
    if p["bp"]:
        for t in ts:
            # a send at exactly the instant the connection completes may count as either side; under
            # back-pressure the two readings differ, so the exact tie is outside the claim
            ctx.assume(t != Tc)
    results = [None] * k
    with Rig(ctx, g) as rig:
        rig.net.on_connect = lambda net, n: ("accept", lat) if n >= a else ("refuse",)
        if bp_delay is not None:
            rig.net.on_drain = lambda conn, n: bp_delay if n == 1 else None
        dup = p.get("dup", False)
        ident = (lambda i: 1) if dup else (lambda i: i + 1)      # dup: messages of the same class are equal objects
        msgs = [cat[p["cat"][i]][1](ident(i)) for i in range(k)]

        def sender(i):
            async def go():
                try:
                    await rig.sock.send(msgs[i], S.RetryPolicy(max_retries=retries[i], max_lifetime=Ls[i]))
                    results[i] = "ok"
                except Exception as e:  # noqa: BLE001
                    results[i] = type(e).__name__
            return go

        rig.spawn(rig.sock.open_socket())
        for i in range(k):
            rig.loop.vt_call_at(ts[i], (lambda i=i: rig.spawn(sender(i)())))
        rig.loop.vt_run(12.25)
        ctx.check(all(r == "ok" for r in results), "sends.accepted", detail={"results": results})
        # reference semantics: message i is written iff a connection exists before ti + Li (strict), at max(ti, Tc)
        conn = rig.net.conns[0] if rig.net.conns else None
        ctx.check(len(rig.net.conns) == 1 and rig.net.max_open == 1, "sends.wire", detail={"conns": len(rig.net.conns)})
        wire = conn.written() if conn else []
        exp_bytes = []
        exp_times = []
        first_written = None
        for i in range(k):
            # instant at which the socket gets to write message i ("as soon as a connection exists")
            when = real_max(ts[i], Tc)
            if bp_delay is not None and first_written is not None and bool(ts[i] < Tc):
                # held behind the first frame, whose drain() is suspended for bp (back-pressure)
                when = first_written + bp_delay
            written = when < ts[i] + Ls[i]     # strictly within its lifetime; trivially true when sent while connected
            if bool(written) if not isinstance(written, bool) else written:
                fr = catalog.ref_frame(g.n, cat[p["cat"][i]], ident(i), i)   # pid = order of the send() calls
                exp_bytes += fr
                exp_times.append((when, len(fr)))
                if first_written is None:
                    first_written = when
        ctx.observe("wire", SymBytes(wire) if ctx.symbolic else bytes(wire))
        ctx.check(bytes_eq(wire, exp_bytes), "sends.wire", detail={"wire_len": len(wire), "expected_len": len(exp_bytes)})
        # contiguity and instants: writes come in (header, payload, check) triples of one frame, same instant
        if conn is not None and not p["bp"]:
            w = conn.writes
            ok = len(w) == 3 * len(exp_times)
            conds = []
            if ok:
                for j, (te, flen) in enumerate(exp_times):
                    tri = w[3 * j:3 * j + 3]
                    ok = ok and sum(len(d) for _, d in tri) == flen
                    conds += [tri[0][0] == te, tri[1][0] == te, tri[2][0] == te]
            ctx.check(sym_and(ok, *conds), "sends.contiguous", detail={"writes": len(w)})
        else:
            # with back-pressure the instants shift, but each frame's three writes stay adjacent (byte equality above)
            ctx.reach("sends.contiguous")
        ctx.check(not rig.task_failures(), "sends.wire", detail="unhandled exception in a socket task")
