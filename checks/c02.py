"""C02 — retry discipline: bounded attempts, none after expiry, non-idempotent once.

(A) socket level: real AirTouchSocket with write faults (drain raises OSError) on a symbolic
    subset of the first N writes, reconnect episodes with symbolic latency / refusals, symbolic
    lifetimes: every frame instance at the console is counted and time-stamped.
(B) API level: every public command of both generations issued on real API objects over the
    real socket with a fault on its first write: accumulate-on-repeat commands (power toggle)
    appear exactly once, idempotent ones are re-sent first on the next connection; the
    handshake/refresh/heartbeat/error-info requests are dropped unless a connection exists
    within one second.
"""
from __future__ import annotations

from ref import framing
from sx.values import SymBool, real_max, sym_and, sym_not, sym_or

from . import catalog
from .common import Gen, Rig, bytes_eq, socket_mod

PID = "C02"
WALL_BUDGET = {"quick": 900, "thorough": 7200}
SAMPLE_RATE = {"quick": 0.01, "thorough": 0.001}
CHUNK = 48
STUBS = ["asyncio.open_connection -> FakeNet (per attempt: refuse or accept after a latency, by script)",
         "writer.drain() raises OSError when the script's symbolic fault bit for that write is set",
         "loop -> VLoop (virtual time)"]
OUTSIDE = ["more than 2 (quick) / 3 (thorough) messages, more than 4 / 7 faultable writes, more than 3 reconnect episodes, retry counts above 2 (quick) / 3 (thorough)",
           "write faults raised by write() itself rather than by drain()"]
ASSUMPTIONS = ["a frame counts as 'put on the wire' when its bytes reach the transport's write(), even if the following drain() fails"]


def bounds(tier):
    return {"messages": 2 if tier == "quick" else 3, "faultable_writes": 4 if tier == "quick" else 7,
            "lifetimes": "(0,8] symbolic", "reconnect_latency": "[0,3] symbolic", "retries": [0, 1, 2] if tier == "quick" else [0, 1, 2, 3],
            "submission_instants": "fixed 0.5 s apart" if tier == "quick" else "fixed 0.5 s apart; free in [1,4] for the second message in four instances per generation"}


def instances(tier):
    out = []
    for g in (4, 5):
        for r0 in (0, 1, 2):
            out.append({"kind": "single_fault", "gen": g, "retries": r0, "second": False})
        out.append({"kind": "single_fault", "gen": g, "retries": 1, "second": True})
        out.append({"kind": "single_fault", "gen": g, "retries": 2, "second": True})
    nf = 4 if tier == "quick" else 6
    for g in (4, 5) if tier == "thorough" else (4,):
        pairs = [(2, 0), (1, 1)] if tier == "quick" else [(a, b) for a in (0, 1, 2) for b in (0, 1, 2)] + [(3, 1), (0, 3)]
        for rs in pairs:
            out.append({"kind": "faults", "gen": g, "retries": list(rs), "nfaults": nf, "refuse": False})
        out.append({"kind": "faults", "gen": g, "retries": [2, 1], "nfaults": 3, "refuse": True})
        if tier == "thorough":
            for rs in [(2, 1, 0), (1, 1, 1), (0, 2, 1), (2, 2, 2), (3, 0, 1)]:
                out.append({"kind": "faults", "gen": g, "retries": list(rs), "nfaults": 7, "refuse": False})
            for rs in [(2, 2), (1, 2), (3, 0)]:
                out.append({"kind": "faults", "gen": g, "retries": list(rs), "nfaults": 5, "refuse": True})
            for rs in [(2, 1), (1, 2), (0, 0), (2, 2)]:
                out.append({"kind": "faults", "gen": g, "retries": list(rs), "nfaults": 4, "refuse": False, "symt": True})
    for g in (4, 5):
        out.append({"kind": "queued_fault", "gen": g, "retries": 1})
        out.append({"kind": "queued_fault", "gen": g, "retries": 2})
    for g in (4, 5):
        out.append({"kind": "bp_expiry", "gen": g})
        out.append({"kind": "connected_policy", "gen": g})
        for call in API_CALLS:
            out.append({"kind": "api_cmd", "gen": g, "call": call})
        for what in ("heartbeat", "refresh", "error_info") + (("group_poll",) if g == 4 else ()):
            out.append({"kind": "api_internal", "gen": g, "what": what})
    for g in (4, 5):
        out.append({"kind": "api_held_fault", "gen": g})
        out.append({"kind": "inflight_fault", "gen": g, "n": 2})
        out.append({"kind": "inflight_fault", "gen": g, "n": 3})
        out.append({"kind": "inflight_fault", "gen": g, "n": 3, "counter": 254})      # the packet ids of the three wrap around
    out.append({"kind": "peer_reset", "gen": 4, "retries": 1})
    out.append({"kind": "peer_reset", "gen": 5, "retries": 0})
    return out


API_CALLS = ["ac_toggle", "ac_on", "ac_mode", "ac_fan", "ac_temp", "zone_power", "zone_damper", "zone_temp", "timer_time", "timer_clear",
             "timer_duration", "check_updates"]


def expect_labels(tier):
    return ["count_le_1_plus_retries", "never_at_or_after_expiry", "resent_first_on_next_connection", "no_resend_after_success",
            "api.accumulating_commands_once", "api.idempotent_commands_resent_first", "api.internal_requests_never_resent",
            "connected_policy.one_second"]


def _frames(g, conn):
    """(pid, type, data, time) of every complete frame written on conn (content is concrete here)."""
    out = []
    items = conn.written()
    fr = framing.parse_stream(g.n, [int(x) for x in items])
    # time of each frame = time of its first write() call
    idx = 0
    for f in fr:
        t = conn.writes[idx][0]
        out.append((f["pid"], f["type"], bytes(f["data"]), t))
        idx += 3
    return out


def run(ctx, p):
    if p["kind"] == "single_fault":
        return _single_fault(ctx, p)
    if p["kind"] == "faults":
        return _faults(ctx, p)
    if p["kind"] == "queued_fault":
        return _queued_fault(ctx, p)
    if p["kind"] == "bp_expiry":
        return _bp_expiry(ctx, p)
    if p["kind"] == "connected_policy":
        return _connected_policy(ctx, p)
    if p["kind"] == "api_cmd":
        return _api_cmd(ctx, p)
    if p["kind"] == "api_internal":
        return _api_internal(ctx, p)
    if p["kind"] == "api_held_fault":
        return _api_held_fault(ctx, p)
    if p["kind"] == "inflight_fault":
        return _inflight_fault(ctx, p)
    return _peer_reset(ctx, p)


def _single_fault(ctx, p):
    """Connected; message 0 is sent, its drain fails; reconnect after a symbolic latency.
    Optionally a second message is submitted during the outage."""
    g = Gen(p["gen"])
    S = socket_mod()
    cat = catalog.catalog(g)
    entry = cat[3]
    r0 = p["retries"]
    L0 = ctx.real("L0", 0, 8, lo_strict=True)
    lat = ctx.real("lat", 0, 3)
    t0 = 1.0
    second = p["second"]
    t1 = ctx.real("t1", 1, 5) if second else None
    with Rig(ctx, g) as rig:
        rig.net.on_connect = lambda net, n: ("accept", 0 if n == 0 else lat)
        rig.net.on_drain = lambda conn, n: (ConnectionResetError("drain") if (conn.index == 0 and n == 1) else None)
        res = {}

        async def s0():
            try:
                await rig.sock.send(entry[1](1), S.RetryPolicy(max_retries=r0, max_lifetime=L0))
                res[0] = "ok"
            except Exception as e:  # noqa: BLE001
                res[0] = type(e).__name__

        async def s1():
            try:
                await rig.sock.send(entry[1](2), S.RetryPolicy(max_retries=0, max_lifetime=30.0))
                res[1] = "ok"
            except Exception as e:  # noqa: BLE001
                res[1] = type(e).__name__

        rig.spawn(rig.sock.open_socket())
        rig.loop.vt_call_at(t0, lambda: rig.spawn(s0()))
        if second:
            rig.loop.vt_call_at(t1, lambda: rig.spawn(s1()))
        rig.loop.vt_run(20.25)
        Tr = t0 + lat                    # the reset happens at t0 (fault), the new connection completes lat later
        per = [_frames(g, c) for c in rig.net.conns]
        all0 = [(ci, f) for ci, fs in enumerate(per) for f in fs if f[2] == bytes(entry[3](1))]
        ctx.observe("appearances", len(all0))
        ctx.observe("conns", len(rig.net.conns))
        ctx.check(len(all0) <= 1 + r0, "count_le_1_plus_retries", detail={"appearances": len(all0), "retries": r0})
        ctx.check(sym_and(*[f[3] < t0 + L0 for _, f in all0]), "never_at_or_after_expiry")
        if r0 >= 1:
            within = Tr < t0 + L0
            if bool(within) if isinstance(within, SymBool) else within:
                ok = len(rig.net.conns) >= 2 and len(per[1]) >= 1 and per[1][0][2] == bytes(entry[3](1)) and len(all0) == 2
                ctx.check(ok, "resent_first_on_next_connection",
                          detail={"conn1_frames": [f[2].hex() for f in per[1]] if len(per) > 1 else None, "appearances": len(all0)})
            else:
                ctx.check(len(all0) == 1, "never_at_or_after_expiry", detail="re-sent although the link came back at/after expiry")
                ctx.reach("resent_first_on_next_connection")
        else:
            ctx.check(len(all0) == 1, "count_le_1_plus_retries")
            ctx.reach("resent_first_on_next_connection")
        if second:
            all1 = [f for fs in per for f in fs if f[2] == bytes(entry[3](2))]
            ctx.check(len(all1) == 1, "no_resend_after_success", detail={"second_appearances": len(all1)})
        else:
            ctx.reach("no_resend_after_success")
        ctx.check(not rig.task_failures(), "count_le_1_plus_retries", detail="unhandled exception in a socket task")


def _faults(ctx, p):
    """Two or three messages sent while connected; each of the first N writes may fail."""
    g = Gen(p["gen"])
    S = socket_mod()
    cat = catalog.catalog(g)
    entry = cat[3]
    rs = p["retries"]
    k = len(rs)
    N = p["nfaults"]
    Ls = [ctx.real(f"L{i}", 0, 8, lo_strict=True) for i in range(k)]
    if p.get("symt"):
        ts = [1.0] + [ctx.real(f"ts{i}", 1, 4) for i in range(1, k)]      # later submissions at free instants (any order among themselves)
    else:
        ts = [1.0 + 0.5 * i for i in range(k)]
    faults = [ctx.bool(f"fault{j}") for j in range(N)]
    lat = ctx.real("lat", 0, 3)
    with Rig(ctx, g) as rig:
        drains = {"n": 0}

        def on_connect(net, n):
            if p["refuse"] and n in (1, 3):
                return ("refuse",)
            return ("accept", 0 if n == 0 else lat)

        def on_drain(conn, n):
            j = drains["n"]
            drains["n"] += 1
            if j < N and faults[j]:
                return ConnectionResetError(f"drain {j}")
            return None

        rig.net.on_connect = on_connect
        rig.net.on_drain = on_drain

        def sender(i):
            async def go():
                try:
                    await rig.sock.send(entry[1](i + 1), S.RetryPolicy(max_retries=rs[i], max_lifetime=Ls[i]))
                except Exception:  # noqa: BLE001
                    pass
            return go

        rig.spawn(rig.sock.open_socket())
        for i in range(k):
            rig.loop.vt_call_at(ts[i], (lambda i=i: rig.spawn(sender(i)())))
        rig.loop.vt_run(40.25)
        per = [_frames(g, c) for c in rig.net.conns]
        ctx.observe("frames", [[f[2].hex() for f in fs] for fs in per])
        # which global write index each frame instance had (to know whether its drain failed)
        widx = 0
        inst = []   # (message index, time, failed?)
        for fs in per:
            for f in fs:
                mi = [i for i in range(k) if f[2] == bytes(entry[3](i + 1))]
                ctx.check(len(mi) == 1, "count_le_1_plus_retries", detail="a frame that was never submitted")
                failed = faults[widx] if widx < N else False
                inst.append((mi[0], f[3], failed))
                widx += 1
        for i in range(k):
            mine = [x for x in inst if x[0] == i]
            ctx.check(len(mine) <= 1 + rs[i], "count_le_1_plus_retries", detail={"message": i, "appearances": len(mine), "retries": rs[i]})
            ctx.check(sym_and(*[x[1] < ts[i] + Ls[i] for x in mine]), "never_at_or_after_expiry", detail={"message": i})
            # once a write succeeded, the message is never written again
            for a in range(len(mine) - 1):
                ctx.check(mine[a][2], "no_resend_after_success", detail={"message": i, "instance": a})
        ctx.reach("resent_first_on_next_connection")
        ctx.check(not rig.task_failures(), "count_le_1_plus_retries", detail="unhandled exception in a socket task")


def _peer_reset(ctx, p):
    """Peer reset on the read side at a symbolic instant around a send: the command is not duplicated."""
    g = Gen(p["gen"])
    S = socket_mod()
    entry = catalog.catalog(g)[3]
    tr = ctx.real("tr", 0.5, 2.0)
    ts = 1.0
    L = ctx.real("L", 0, 8, lo_strict=True)
    lat = ctx.real("lat", 0, 3)
    with Rig(ctx, g) as rig:
        rig.net.on_connect = lambda net, n: ("accept", 0 if n == 0 else lat)

        async def s0():
            try:
                await rig.sock.send(entry[1](1), S.RetryPolicy(max_retries=p["retries"], max_lifetime=L))
            except Exception:  # noqa: BLE001
                pass

        rig.spawn(rig.sock.open_socket())
        rig.loop.vt_call_at(ts, lambda: rig.spawn(s0()))
        rig.loop.vt_call_at(tr, lambda: rig.net.conns[0].reset() if rig.net.conns and not rig.net.conns[0].client_closed else None)
        rig.loop.vt_run(20.25)
        per = [_frames(g, c) for c in rig.net.conns]
        mine = [f for fs in per for f in fs if f[2] == bytes(entry[3](1))]
        ctx.observe("appearances", len(mine))
        # no write fault occurred: exactly one transmission if a connection existed within the lifetime, never more
        ctx.check(len(mine) <= 1, "count_le_1_plus_retries", detail={"appearances": len(mine)})
        ctx.check(sym_and(*[f[3] < ts + L for f in mine]), "never_at_or_after_expiry")
        ctx.reach("resent_first_on_next_connection")
        ctx.reach("no_resend_after_success")
        ctx.check(not rig.task_failures(), "count_le_1_plus_retries", detail="unhandled exception in a socket task")


def _queued_fault(ctx, p):
    """Two messages held while the link is down; the first write on the new connection fails:
    the failed message must be re-sent *first* on the next connection, ahead of the one queued behind it."""
    g = Gen(p["gen"])
    S = socket_mod()
    entry = catalog.catalog(g)[3]
    L0 = ctx.real("L0", 0, 8, lo_strict=True)
    t0 = ctx.real("t0", 0, 2, hi_strict=True)
    t1 = ctx.real("t1", 0, 2, hi_strict=True)
    ctx.assume(t1 >= t0)
    lat = ctx.real("lat", 0, 3)
    with Rig(ctx, g) as rig:
        rig.net.on_connect = lambda net, n: ("refuse",) if n == 0 else ("accept", 0 if n == 1 else lat)
        rig.net.on_drain = lambda conn, n: (ConnectionResetError("drain") if (conn.index == 0 and n == 1) else None)

        async def s(i, retries, L):
            try:
                await rig.sock.send(entry[1](i + 1), S.RetryPolicy(max_retries=retries, max_lifetime=L))
            except Exception:  # noqa: BLE001
                pass

        rig.spawn(rig.sock.open_socket())
        rig.loop.vt_call_at(t0, lambda: rig.spawn(s(0, p["retries"], L0)))
        rig.loop.vt_call_at(t1, lambda: rig.spawn(s(1, 0, 30.0)))
        rig.loop.vt_run(20.25)
        per = [_frames(g, c) for c in rig.net.conns]
        ctx.observe("frames", [[f[2].hex() for f in fs] for fs in per])
        m0, m1 = bytes(entry[3](1)), bytes(entry[3](2))
        a0 = [f for fs in per for f in fs if f[2] == m0]
        a1 = [f for fs in per for f in fs if f[2] == m1]
        first_alive = 2.0 < t0 + L0             # message 0 still within lifetime when the link first comes up (t=2)
        Tr = 2.0 + lat                          # second connection
        ctx.check(len(a0) <= 1 + p["retries"], "count_le_1_plus_retries", detail={"appearances": len(a0)})
        ctx.check(sym_and(*[f[3] < t0 + L0 for f in a0]), "never_at_or_after_expiry")
        ctx.check(len(a1) == 1, "no_resend_after_success", detail={"second_appearances": len(a1)})
        if bool(first_alive) if isinstance(first_alive, SymBool) else first_alive:
            again = Tr < t0 + L0
            if bool(again) if isinstance(again, SymBool) else again:
                ok = len(per) >= 2 and [f[2] for f in per[1]][:2] == [m0, m1] and [f[2] for f in per[0]] == [m0]
                ctx.check(ok, "resent_first_on_next_connection", detail={"frames": [[f[2].hex() for f in fs] for fs in per]})
            else:
                ctx.check(len(a0) == 1, "never_at_or_after_expiry", detail="re-sent at/after expiry")
                ctx.reach("resent_first_on_next_connection")
        else:
            ctx.check(len(a0) == 0, "never_at_or_after_expiry", detail="expired message transmitted")
            ctx.reach("resent_first_on_next_connection")
        ctx.check(not rig.task_failures(), "count_le_1_plus_retries", detail="unhandled exception in a socket task")


def _bp_expiry(ctx, p):
    """Two messages held while the link is down; on the new connection the first write suspends in drain()
    (back-pressure) for a symbolic time; the second message's lifetime may run out meanwhile: it must not be
    written at or after its expiry."""
    g = Gen(p["gen"])
    S = socket_mod()
    entry = catalog.catalog(g)[3]
    L1 = ctx.real("L1", 0, 6, lo_strict=True)
    bp = ctx.real("bp", 0, 4, lo_strict=True)
    t1 = ctx.real("t1", 0, 2, hi_strict=True)
    with Rig(ctx, g) as rig:
        rig.net.on_connect = lambda net, n: ("refuse",) if n == 0 else ("accept", 0)
        rig.net.on_drain = lambda conn, n: (bp if n == 1 else None)

        async def s(i, L, at_least_retry=0):
            try:
                await rig.sock.send(entry[1](i + 1), S.RetryPolicy(max_retries=at_least_retry, max_lifetime=L))
            except Exception:  # noqa: BLE001
                pass

        rig.spawn(rig.sock.open_socket())
        rig.loop.vt_call_at(0.5, lambda: rig.spawn(s(0, 30.0)))
        rig.loop.vt_call_at(t1, lambda: rig.spawn(s(1, L1)))
        rig.loop.vt_run(20.25)
        per = [_frames(g, c) for c in rig.net.conns]
        m1 = bytes(entry[3](2))
        a1 = [f for fs in per for f in fs if f[2] == m1]
        ctx.observe("second_written", len(a1))
        ctx.check(len(a1) <= 1, "count_le_1_plus_retries")
        ctx.check(sym_and(*[f[3] < t1 + L1 for f in a1]), "never_at_or_after_expiry", detail="written at/after expiry under back-pressure")
        ctx.reach("resent_first_on_next_connection")
        ctx.reach("no_resend_after_success")
        ctx.check(not rig.task_failures(), "count_le_1_plus_retries", detail="unhandled exception in a socket task")


def _connected_policy(ctx, p):
    """The library's 'only while connected' policy constant: a request submitted while the link is down is
    transmitted iff a connection exists within one second (strictly), and never retried."""
    g = Gen(p["gen"])
    S = socket_mod()
    entry = catalog.catalog(g)[5]       # a status request
    ts = ctx.real("ts", 0, 1.5)
    lat = ctx.real("lat", 0, 2.0)
    with Rig(ctx, g) as rig:
        # the first attempt is refused, the retry (at 2 s) is accepted after lat
        rig.net.on_connect = lambda net, n: ("refuse",) if n == 0 else ("accept", lat)
        rig.net.on_drain = lambda conn, n: (ConnectionResetError("x") if (conn.index == 0 and n == 1) else None)

        async def s():
            try:
                await rig.sock.send(entry[1](0), S.RETRY_CONNECTED)
            except Exception:  # noqa: BLE001
                pass

        rig.spawn(rig.sock.open_socket())
        tsend = 1.0 + ts
        rig.loop.vt_call_at(tsend, lambda: rig.spawn(s()))
        rig.loop.vt_run(20.25)
        per = [_frames(g, c) for c in rig.net.conns]
        mine = [f for fs in per for f in fs if f[1] == entry[2]]
        Tc = 2.0 + lat
        within = Tc < tsend + 1
        w = bool(within) if isinstance(within, SymBool) else within
        # written once iff the connection came within one second; its (faulted) write is never retried
        ctx.check(len(mine) == (1 if w else 0), "connected_policy.one_second", detail={"appearances": len(mine), "within": w})
        for lab in ("count_le_1_plus_retries", "never_at_or_after_expiry", "resent_first_on_next_connection", "no_resend_after_success"):
            ctx.reach(lab)


def _api_rig(ctx, g):
    from .common import ApiRig
    from .console import Installation
    inst = Installation.simple(g.n, n_acs=1, zones_per_ac=1)
    return ApiRig(ctx, g, inst), inst


def _api_cmd(ctx, p):
    """A public command whose first write fails; the link comes back 0.5 s later."""
    import datetime
    import importlib
    A = importlib.import_module("pyairtouch.api")
    g = Gen(p["gen"])
    call = p["call"]
    rig, inst = _api_rig(ctx, g)
    with rig:
        rig.net.on_connect = lambda net, n: ("accept", 0 if n == 0 else 0.5)
        armed = {"on": False}

        def on_drain(conn, n):
            if armed["on"]:
                armed["on"] = False
                return ConnectionResetError("write fault")
            return None

        rig.net.on_drain = on_drain
        rig.start()
        rig.run(1.0)
        ctx.check(rig.init_result is True, "api.idempotent_commands_resent_first", detail="handshake failed")
        con = rig.console
        n0 = len(con.requests)
        ac, zone = rig.ac(0), rig.zone(0)

        async def go():
            armed["on"] = True
            if call == "ac_toggle":
                await ac.set_power(A.AcPowerControl.TOGGLE)
            elif call == "ac_on":
                await ac.set_power(A.AcPowerControl.TURN_ON)
            elif call == "ac_mode":
                await ac.set_mode(A.AcMode.COOL)
            elif call == "ac_fan":
                await ac.set_fan_speed(A.AcFanSpeed.LOW)
            elif call == "ac_temp":
                await ac.set_target_temperature(23.0)
            elif call == "zone_power":
                await zone.set_power(A.ZonePowerState.OFF)
            elif call == "zone_damper":
                await zone.set_damper_percentage(40)
            elif call == "zone_temp":
                await zone.set_target_temperature(22.0)
            elif call == "timer_time":
                await ac.set_quick_timer(A.AcTimerType.ON_TIMER, datetime.time(7, 30))
            elif call == "timer_clear":
                await ac.clear_quick_timer(A.AcTimerType.OFF_TIMER)
            elif call == "timer_duration":
                await ac.set_quick_timer(A.AcTimerType.OFF_TIMER, datetime.timedelta(hours=1))
            elif call == "check_updates":
                await rig.at.check_for_updates()

        rig.spawn(go())
        rig.run(6.0)
        after = con.requests[n0:]
        first = after[0] if after else None
        same = [r for r in after if first is not None and bytes(r[2]["data"]) == bytes(first[2]["data"]) and r[2]["type"] == first[2]["type"]]
        detail = {"call": call, "kinds": [k for _, k, _ in after]}
        if call == "ac_toggle":
            ctx.check(len(same) == 1, "api.accumulating_commands_once", detail=detail)
            ctx.reach("api.idempotent_commands_resent_first")
        else:
            ctx.reach("api.accumulating_commands_once")
            # re-sent, and first on the new connection (ahead of the refresh requests issued on reconnect)
            conn1 = rig.net.conns[1] if len(rig.net.conns) > 1 else None
            first_on_new = None
            if conn1 is not None:
                fr = framing.parse_stream(g.n, [int(x) for x in conn1.written()])
                first_on_new = bytes(fr[0]["data"]) if fr else None
            ok = len(same) == 2 and first_on_new == bytes(first[2]["data"])
            ctx.check(ok, "api.idempotent_commands_resent_first", detail=dict(detail, appearances=len(same)))
        ctx.reach("api.internal_requests_never_resent")
        ctx.reach("connected_policy.one_second")
        for lab in ("count_le_1_plus_retries", "never_at_or_after_expiry", "resent_first_on_next_connection", "no_resend_after_success"):
            ctx.reach(lab)


def _inflight_fault(ctx, p):
    """Two or three idempotent commands are in flight at once (their drain() is held up by back-pressure) when the link
    breaks at a free instant: one fault fails them all. On the next connection each is re-sent once, the oldest first."""
    g = Gen(p["gen"])
    S = socket_mod()
    entry = catalog.catalog(g)[3]
    n = p["n"]
    t_break = ctx.real("t_break", 1, 2)
    with Rig(ctx, g) as rig:
        if p.get("counter"):
            g.reset_packet_counter(p["counter"])
        rig.net.on_connect = lambda net, k: ("accept", 0 if k == 0 else 0.5)
        rig.net.on_drain = lambda conn, k: (2.0 if conn.index == 0 else None)      # every drain() on the first connection is held up

        def sender(i):
            async def go():
                try:
                    await rig.sock.send(entry[1](i + 1), S.RetryPolicy(max_retries=2, max_lifetime=30.0))
                except Exception:  # noqa: BLE001
                    pass
            return go

        rig.spawn(rig.sock.open_socket())
        for i in range(n):
            rig.loop.vt_call_at(0.5 + 0.125 * i, (lambda i=i: rig.spawn(sender(i)())))
        rig.loop.vt_call_at(t_break, lambda: rig.net.conns[0].reset())
        rig.loop.vt_run(12.25)
        later = [f for c in rig.net.conns[1:] for f in _frames(g, c)]
        order = [[i for i in range(n) if f[2] == bytes(entry[3](i + 1))] for f in later]
        flat = [o[0] if o else None for o in order]
        ctx.observe("resent", flat)
        ctx.check(flat == list(range(n)), "resent_first_on_next_connection", detail={"in_flight": n, "resent_order": flat, "expected": list(range(n))})
        ctx.check(not rig.task_failures(), "resent_first_on_next_connection", detail="unhandled exception in a socket task")
    for lab in expect_labels("quick"):
        ctx.reach(lab)


def _api_held_fault(ctx, p):
    """A solver-chosen number of idempotent commands (up to the ten the buffer holds) is held over an outage; on the
    reconnection exactly one write fails (a solver-chosen one among the first writes of the new connection); the link
    comes back again: no command is lost, each is transmitted successfully exactly once, in acceptance order."""
    g = Gen(p["gen"])
    rig, inst = _api_rig(ctx, g)
    n_held = (1, 2, 9, 10)[ctx.choice("held", 4)]
    fail_at = ctx.choice("failing_write", 3)            # which drain() on the second connection fails
    with rig:
        con = rig.console
        mode = {"accept": True}
        rig.net.on_connect = lambda net, n: (("accept", 0) if mode["accept"] else ("refuse",))
        state = {"drains": 0, "done": False}

        def on_drain(conn, n):
            if conn.index == 1 and not state["done"]:
                k = state["drains"]
                state["drains"] += 1
                if k == fail_at:
                    state["done"] = True
                    return ConnectionResetError("write fault")
            return None

        rig.net.on_drain = on_drain
        rig.start()
        rig.run(1.0)
        ctx.check(rig.init_result is True, "resent_first_on_next_connection", detail="handshake failed")
        mode["accept"] = False
        rig.net.current().reset()
        rig.run(1.5)
        zone = rig.zone(0)
        res = []

        async def cmds():
            for i in range(n_held):
                try:
                    await zone.set_damper_percentage(5 * (i + 1))
                    res.append("ok")
                except Exception as e:  # noqa: BLE001
                    res.append(type(e).__name__)

        rig.spawn(cmds())
        rig.run(2.0)
        mode["accept"] = True
        rig.run(12.0)
        # successful transmissions: frames whose drain() did not fail = every zone_ctrl frame except the one written just before the fault
        per_conn = {}
        for c in rig.net.conns[1:]:
            fr = framing.parse_stream(g.n, [int(x) for x in c.written()])
            per_conn[c.index] = [f for f in fr]
        def pct(f):
            from ref import at4 as r4
            from ref import at5 as r5
            d = [int(b) for b in f["data"]]
            return r4.group_control(d)["value"] if g.n == 4 else r5.zone_control_record(d[8:12])["value"]
        def is_zone_ctrl(f):
            return (f["type"] == 0x2A) if g.n == 4 else (f["type"] == 0xC0 and f["data"][0] == 0x20)
        seq = {i: [pct(f) for f in fs if is_zone_ctrl(f)] for i, fs in per_conn.items()}
        # the frame whose drain() failed was not transmitted successfully: it is the fail_at-th frame of the second connection
        ok_frames = {i: [(pct(f), j) for j, f in enumerate(fs) if is_zone_ctrl(f) and not (i == 1 and j == fail_at)] for i, fs in per_conn.items()}
        good = [v for i in sorted(ok_frames) for v, _ in ok_frames[i]]
        detail = {"held": n_held, "failing_write": fail_at, "results": res, "damper_values_per_connection": seq, "successfully_transmitted": good}
        ctx.observe("seq", seq)
        want = [5 * (i + 1) for i in range(n_held)]
        ctx.check(res == ["ok"] * n_held, "resent_first_on_next_connection", detail=detail)
        ctx.check(sorted(good) == want, "resent_first_on_next_connection", detail=dict(detail, why="a held command was lost (or transmitted successfully twice)"))
        ctx.check(good == want, "resent_first_on_next_connection", detail=dict(detail, why="not in acceptance order"))
        allv = [v for i in sorted(seq) for v in seq[i]]
        ctx.check(len(allv) <= n_held + 1, "count_le_1_plus_retries", detail=dict(detail, why="more repeats than the single failed write explains"))
        ctx.check(not rig.task_failures(), "resent_first_on_next_connection", detail="unhandled exception")
    for lab in expect_labels("quick"):
        ctx.reach(lab)


def _api_internal(ctx, p):
    """Requests the library issues by itself (heartbeat, refresh after reconnect, error-info): a failed write
    is never retried."""
    g = Gen(p["gen"])
    what = p["what"]
    rig, inst = _api_rig(ctx, g)
    with rig:
        rig.net.on_connect = lambda net, n: ("accept", 0 if n == 0 else 0.5)
        armed = {"kind": None, "hits": 0}
        con = rig.console

        def on_request(conn, kind, fr):
            pass

        def on_drain(conn, n):
            # fail the drain that follows the first request of the armed kind
            if armed["kind"] is not None and con.requests and con.requests[-1][1] == armed["kind"] and armed["hits"] == 0:
                armed["hits"] = 1
                return ConnectionResetError("write fault")
            return None

        rig.net.on_drain = on_drain
        rig.start()
        rig.run(1.0)
        ctx.check(rig.init_result is True, "api.internal_requests_never_resent", detail="handshake failed")
        n0 = len(con.requests)
        if what == "heartbeat":
            armed["kind"] = "version"
            rig.run(302.0)               # the 300 s heartbeat request is written and its drain fails
            horizon = 320.0
        elif what == "group_poll":
            armed["kind"] = "zone_status"
            rig.run(302.0)               # AT4: the group status poll after 300 s of silence is written and its drain fails
            horizon = 320.0
        elif what == "refresh":
            armed["kind"] = "ac_status"
            con.push(None) if False else None
            rig.net.conns[0].reset()     # outage: the client reconnects and issues the refresh requests
            horizon = 10.0
        else:
            armed["kind"] = "error"
            # an AC status report with an error code makes the client ask for the error text
            inst.ac_status[0][-2 if g.n == 4 else -4] = 0x12 if g.n == 4 else 0
            if g.n == 5:
                inst.ac_status[0][7] = 0x12
            con.push(con.ac_status_frame(pid=0x33))
            horizon = 10.0
        rig.run(horizon)
        after = [k for _, k, _ in con.requests[n0:]]
        cnt = after.count(armed["kind"])
        ctx.check(armed["hits"] == 1, "api.internal_requests_never_resent", detail={"what": what, "why": "the targeted write was never attempted", "kinds": after})
        # the faulted request itself is never written again; a *new* refresh after the next reconnect is a new request
        # refresh / group_poll: the faulted request, and the (new) refresh request of the reconnection; error_info: the faulted
        # request, and a new one when the refreshed status still shows the error without its text
        exp = {"heartbeat": 1, "refresh": 2, "error_info": 2, "group_poll": 2}[what]
        ctx.check(cnt == exp, "api.internal_requests_never_resent", detail={"what": what, "count": cnt, "kinds": after})
        # a re-sent message keeps its header: no packet id appears twice among the requests of that kind
        pids = [fr["pid"] for _, k, fr in con.requests[n0:] if k == armed["kind"]]
        ctx.check(len(set(pids)) == len(pids), "api.internal_requests_never_resent", detail={"what": what, "packet_ids": pids, "why": "the faulted request was written again"})
        for lab in ("count_le_1_plus_retries", "never_at_or_after_expiry", "resent_first_on_next_connection", "no_resend_after_success",
                    "api.accumulating_commands_once", "api.idempotent_commands_resent_first", "connected_policy.one_second"):
            ctx.reach(lab)
