"""C03 — every message frames and parses back identically, lengths agree.

For each of the 36 message/request classes, a message whose fields are symbolic (within the
documented domains) is sent through the real send path (size -> header factory -> header encoder
-> message encoder(s) incl. the 0x1F / 0xC0 wrappers -> CRC -> three writes); the captured bytes
are fed back into the real receive path (_read_one_message) and the delivered header and message
must equal what was sent, with nothing left over and all announced lengths consistent.
"""
from __future__ import annotations

import dataclasses
import datetime

import z3

from ref import framing
from sx import shims
from sx.values import EnumProxy, SymBool, SymBytes, SymFloat, SymInt, Utf8Str, sym_and, sym_not, sym_or
from sx.utf8 import utf8_valid

from .common import Gen, Rig, bytes_eq, socket_mod

PID = "C03"
WALL_BUDGET = {"quick": 900, "thorough": 7200}
SAMPLE_RATE = {"quick": 0.02, "thorough": 0.002}
CHUNK = 32
STUBS = ["asyncio.open_connection -> FakeNet; the console echoes the client's bytes back (loop-back)", "StreamReader -> StubReader over symbolic bytes",
         "loop -> VLoop"]
OUTSIDE = ["repeat counts above the stated bound with all records free (larger counts: one free record, the others fixed)",
           "strings longer than the stated number of free bytes", "dict-keyed messages (names): at most 2 entries, keys free in two bit positions"]
ASSUMPTIONS = ["validity predicates (documented domains only): names fit their field and contain no NUL; version strings non-empty without separator; error text None or non-empty; sensor-less zones carry no temperature/set-point; AT4 timer messages carry entries 0..3; temperatures/set-points lie on the raw grid; quick-timer durations are whole minutes below 24 h",
               "messages sharing an id with their request and no discriminator: count 0 has the request's wire form by protocol design; equality is checked up to that identification"]


def bounds(tier):
    return {"repeat_counts": [0, 1, 2] if tier == "quick" else [0, 1, 2, 3, 16], "free_string_bytes": 3 if tier == "quick" else 5}


def _classes(gen):
    if gen == 4:
        return ["GroupControl", "GroupStatus", "GroupStatusRequest", "AcControl", "AcStatus", "AcStatusRequest", "AcTimerControl",
                "AcTimerStatus", "AcTimerStatusRequest", "ErrorInfo", "ErrorInfoRequest", "Ability", "AbilityRequest", "Names",
                "NamesRequest", "QuickTimer", "Version", "VersionRequest"]
    return ["ZoneControl", "ZoneStatus", "ZoneStatusRequest", "AcControl", "AcStatus", "AcStatusRequest", "AcTimerControl",
            "AcTimerStatus", "AcTimerStatusRequest", "ErrorInfo", "ErrorInfoRequest", "Ability", "AbilityRequest", "Names",
            "NamesRequest", "QuickTimer", "Version", "VersionRequest"]


REPEATING = {"GroupStatus", "AcStatus", "AcTimerControl", "AcTimerStatus", "ZoneControl", "ZoneStatus", "AcControl5", "Ability", "Names"}


def instances(tier):
    out = []
    counts = [0, 1, 2] if tier == "quick" else [0, 1, 2, 3]
    for g in (4, 5):
        for c in _classes(g):
            rep = c in ("GroupStatus", "AcStatus", "AcTimerStatus", "ZoneStatus", "ZoneControl", "Ability", "Names") or (c in ("AcControl", "AcTimerControl") and g == 5) or (c == "AcTimerControl" and g == 4)
            if rep:
                for n in counts:
                    if c in ("ZoneControl",) and n == 0:
                        continue
                    if c == "Ability" and n >= 2:
                        out.append({"gen": g, "cls": c, "n": n, "free_at": n - 1})    # ability: one free record, others fixed
                        continue
                    out.append({"gen": g, "cls": c, "n": n})
                if tier == "thorough" and c not in ("Names", "Ability"):
                    out.append({"gen": g, "cls": c, "n": 16 if not (g == 4 and c in ("AcTimerStatus", "AcTimerControl", "AcStatus")) else 4, "free_at": 7})
            else:
                out.append({"gen": g, "cls": c, "n": 1})
        # two messages of one class held together for a down link and flushed in one go: each goes out as its own frame
        out.append({"gen": g, "cls": "pair", "n": 2})
    return out


def expect_labels(tier):
    return ["delivered_once", "header_equal", "message_equal", "lengths_agree", "nothing_left_over"]


# ------------------------------------------------------------------------- symbolic message construction

class B:
    """Builder of symbolic field values."""

    def __init__(self, ctx):
        self.ctx = ctx
        self.k = 0

    def name(self, base):
        self.k += 1
        return f"{base}{self.k}"

    def int(self, lo, hi, base="i"):
        return self.ctx.int(self.name(base), lo, hi)

    def flag(self, base="f"):
        return self.ctx.bool(self.name(base))

    def enum(self, cls, base="e", exclude=()):
        vals = sorted(m.value for m in cls if m not in exclude)
        v = self.ctx.int(self.name(base), min(vals), max(vals))
        if not isinstance(v, int):
            self.ctx.assume(sym_or(*[v == x for x in vals]))
            return EnumProxy(cls, v)
        return cls(v)

    def pick(self, n, base="p"):
        return self.ctx.choice(self.name(base), n)

    def grid(self, lo_raw, hi_raw, offset, base="t"):
        """float (raw+offset)/10 for a symbolic raw."""
        raw = self.ctx.int(self.name(base), lo_raw, hi_raw)
        return (raw + offset) / 10.0

    def text(self, nbytes, forbid=(0,), base="s", min_len=0, concrete_tail=""):
        """str of 0..nbytes free UTF-8 bytes (+ fixed tail); assumed valid UTF-8, without the forbidden bytes."""
        ln = min_len + self.pick(nbytes - min_len + 1, base + "len") if nbytes > min_len else nbytes
        items = [self.ctx.byte(self.name(base)) for _ in range(ln)]
        if items:
            v = utf8_valid(items)
            self.ctx.assume(v)
            for fb in forbid:
                self.ctx.assume(sym_and(*[b != fb for b in items]))
        items = items + list(concrete_tail.encode("utf-8"))
        if self.ctx.symbolic:
            return Utf8Str(items)
        return bytes(items).decode("utf-8")


# fixed tails for names with two free bytes in front: short; 14 ASCII bytes (up to the full 16-byte field); 12 ASCII bytes and a
# two-byte character (the field ends inside / right after a multi-byte character)
_WIDE16 = ("U", "ABCDEFGHIJKLMN", "ABCDEFGHIJKL\u00e9")


def _timer_state(b, mod):
    return mod.AcTimerState(disabled=b.flag(), hour=b.int(0, 23), minute=b.int(0, 59))


def build(ctx, g, cls, n, free_at=None):
    """Returns (message to send, label of the empty/request identification or None)."""
    b = B(ctx)
    E = g.ext.ExtendedMessage
    free = (lambda i: True) if free_at is None else (lambda i: i == free_at)
    if g.n == 4:
        gc, gs = g.m("x2A_group_ctrl"), g.m("x2B_group_status")
        ac, st = g.m("x2C_ac_ctrl"), g.m("x2D_ac_status")
        tc, ts = g.m("x36_ac_timer_ctrl"), g.m("x37_ac_timer_status")
        er, ab, nm = g.m("x1FFF10_err_info"), g.m("x1FFF11_ac_ability"), g.m("x1FFF12_group_names")
        qt, cv = g.m("x1FFF20_quick_timer"), g.m("x1FFF30_console_ver")
        if cls == "GroupControl":
            k = b.pick(4)
            setting = [None, b.enum(gc.GroupIncreaseDecrease) if k == 1 else None,
                       gc.GroupDamperControl(b.int(0, 100)) if k == 2 else None,
                       gc.GroupSetPointControl(b.int(0, 63)) if k == 3 else None][k]
            return gc.GroupControlMessage(b.int(0, 15), b.enum(gc.GroupPowerControl), b.enum(gc.GroupControlMethod), setting), None
        if cls == "GroupStatus":
            recs = []
            for i in range(n):
                if free(i):
                    sensor = b.flag()
                    has = bool(sensor)
                    recs.append(gs.GroupStatusData(b.int(0, 15), b.enum(gs.GroupPowerState), b.enum(gs.GroupControlMethod), b.flag(), b.flag(), has,
                                                   b.enum(gs.SensorBatteryStatus), (b.grid(0, 2000, -500) if b.pick(2) else None) if has else None,
                                                   b.int(0, 100), b.int(0, 63) if has else None))
                else:
                    recs.append(gs.GroupStatusData(i % 16, gs.GroupPowerState.ON, gs.GroupControlMethod.TEMPERATURE, False, True, True,
                                                   gs.SensorBatteryStatus.NORMAL, 23.5, 80, 24))
            return gs.GroupStatusMessage(recs), ("GroupStatusRequest" if n == 0 else None)
        if cls == "GroupStatusRequest":
            return gs.GroupStatusRequest(), None
        if cls == "AcControl":
            k = b.pick(3)
            sp = [None, b.enum(ac.AcIncreaseDecrease) if k == 1 else None, ac.AcSetPointValue(b.int(0, 62)) if k == 2 else None][k]
            return ac.AcControlMessage(b.int(0, 3), b.enum(ac.AcPowerControl), b.enum(ac.AcModeControl), b.enum(ac.AcFanSpeedControl), sp), None
        if cls == "AcStatus":
            recs = []
            for i in range(n):
                if free(i):
                    recs.append(st.AcStatusData(b.int(0, 3), b.enum(st.AcPowerState), b.enum(st.AcMode), b.enum(st.AcFanSpeed), b.flag(), b.flag(),
                                                b.int(0, 63), b.grid(0, 2000, -500), b.int(0, 65535)))
                else:
                    recs.append(st.AcStatusData(i % 4, st.AcPowerState.ON, st.AcMode.COOL, st.AcFanSpeed.LOW, False, True, 22, 25.5, 0))
            return st.AcStatusMessage(recs), ("AcStatusRequest" if n == 0 else None)
        if cls == "AcStatusRequest":
            return st.AcStatusRequest(), None
        if cls in ("AcTimerControl", "AcTimerStatus"):
            # AT4 timer messages always carry entries 0..3 on the wire; entries not given are zero
            given = list(range(min(n, 4)))
            data = []
            for i in range(4):
                if i in given and free(i):
                    data.append(ts.AcTimerStatusData(i, _timer_state(b, ts), _timer_state(b, ts)))
                else:
                    data.append(ts.AcTimerStatusData(i, ts.AcTimerState(False, 0, 0), ts.AcTimerState(False, 0, 0)))
            if cls == "AcTimerControl":
                return tc.AcTimerControlMessage(data), None
            return ts.AcTimerStatusMessage(data), None
        if cls == "AcTimerStatusRequest":
            return ts.AcTimerStatusRequest(), None
        if cls == "ErrorInfo":
            k = b.pick(2)
            return E(er.AcErrorInformationMessage(b.int(0, 3), None if k == 0 else b.text(3, forbid=(), min_len=1))), None
        if cls == "ErrorInfoRequest":
            return E(er.AcErrorInformationRequest(b.int(0, 3))), None
        if cls == "Ability":
            recs = []
            for i in range(n):
                # two free mode bits, two free fan bits (positions rotate with the record index), the rest fixed:
                # every free flag doubles the encoder's paths (bool_to_bit branches)
                fm = [m for m in ab.AcModeControl if m is not ab.AcModeControl.UNCHANGED]
                ff = [m for m in ab.AcFanSpeedControl if m is not ab.AcFanSpeedControl.UNCHANGED]
                modes = {m: (b.flag() if j in (i % 5, (i + 3) % 5) else (j % 2 == 0)) for j, m in enumerate(fm)}
                modes[ab.AcModeControl.UNCHANGED] = True
                fans = {m: (b.flag() if j in (i % 7, (i + 4) % 7) else (j % 2 == 1)) for j, m in enumerate(ff)}
                fans[ab.AcFanSpeedControl.UNCHANGED] = True
                if not free(i):
                    recs.append(ab.AcAbility(i % 4, "FIXED", {m: True for m in ab.AcModeControl}, {m: True for m in ab.AcFanSpeedControl}, 17, 30, {2, 3}, 0, 2))
                    continue
                newfmt = b.pick(3)
                groups = None if newfmt == 0 else (set() if newfmt == 2 else ({1, 9} | {x for x in (0, 15) if b.flag()}))
                recs.append(ab.AcAbility(b.int(0, 3), b.text(2, concrete_tail=_WIDE16[b.pick(3)]), modes, fans, b.int(0, 63), b.int(0, 63), groups, b.int(0, 15), b.int(0, 16)))
            return E(ab.AcAbilityMessage(recs)), ("AbilityRequestALL" if n == 0 else None)
        if cls == "AbilityRequest":
            k = b.pick(2)
            return E(ab.AcAbilityRequest("ALL" if k == 0 else b.int(0, 3))), None
        if cls == "Names":
            names = {}
            for i in range(n):
                key = [(1, 3), (2, 12)][i % 2][b.pick(2)]
                names[key] = b.text(3, concrete_tail=("x" if i else "") + ("", "ABCD" if i else "ABCDE")[b.pick(2)])      # up to the full 8-byte field
            return E(nm.GroupNamesMessage(names)), ("NamesRequestALL" if n == 0 else None)
        if cls == "NamesRequest":
            k = b.pick(2)
            return E(nm.GroupNamesRequest("ALL" if k == 0 else b.int(0, 15))), None
        if cls == "QuickTimer":
            mins = b.int(0, 1439)
            d = shims.SxTimedelta.symbolic(mins * 60) if ctx.symbolic else datetime.timedelta(minutes=mins)
            return E(qt.QuickTimerMessage(b.int(0, 3), b.enum(qt.TimerType), d)), None
        if cls == "Version":
            k = b.pick(2)
            vs = [b.text(3, forbid=(0x7C,), min_len=1)] + ([b.text(2, forbid=(0x7C,), min_len=1)] if k else [])
            return E(cv.ConsoleVersionMessage(b.flag(), vs)), None
        if cls == "VersionRequest":
            return E(cv.ConsoleVersionRequest()), None
    else:
        zc, zs = g.m("xC020_zone_ctrl"), g.m("xC021_zone_status")
        ac, st = g.m("xC022_ac_ctrl"), g.m("xC023_ac_status")
        tc, ts = g.m("xC032_ac_timer_ctrl"), g.m("xC033_ac_timer_status")
        er, ab, nm = g.m("x1FFF10_err_info"), g.m("x1FFF11_ac_ability"), g.m("x1FFF13_zone_names")
        qt, cv = g.m("x1FFF49_quick_timer"), g.m("x1FFF30_console_ver")
        C = g.m("xC0_ctrl_status").ControlStatusMessage
        if cls == "ZoneControl":
            recs = []
            for i in range(n):
                if free(i):
                    k = b.pick(4)
                    setting = [None, b.enum(zc.ZoneIncreaseDecrease) if k == 1 else None, zc.ZoneDamperControl(b.int(0, 100)) if k == 2 else None,
                               zc.ZoneSetPointControl(b.grid(0, 250, 100)) if k == 3 else None][k]
                    recs.append(zc.ZoneControlData(b.int(0, 15), b.enum(zc.ZonePowerControl), setting))
                else:
                    recs.append(zc.ZoneControlData(i % 16, zc.ZonePowerControl.TURN_ON, None))
            return C(zc.ZoneControlMessage(recs)), None
        if cls == "ZoneStatus":
            recs = []
            for i in range(n):
                if free(i):
                    sensor = b.flag()
                    has = bool(sensor)
                    recs.append(zs.ZoneStatusData(b.int(0, 15), b.enum(zs.ZonePowerState), b.flag(), b.enum(zs.ZoneControlMethod), has,
                                                  b.enum(zs.SensorBatteryStatus), (b.grid(0, 2000, -500) if b.pick(2) else None) if has else None,
                                                  b.int(0, 100), (b.grid(0, 250, 100) if b.pick(2) else None) if has else None))
                else:
                    recs.append(zs.ZoneStatusData(i % 16, zs.ZonePowerState.ON, False, zs.ZoneControlMethod.TEMPERATURE, True,
                                                  zs.SensorBatteryStatus.NORMAL, 24.3, 100, 25.0))
            return C(zs.ZoneStatusMessage(recs)), None      # AT5: the sub-header (record length) tells an empty report from a request
        if cls == "ZoneStatusRequest":
            return C(zs.ZoneStatusRequest()), None
        if cls == "AcControl":
            recs = []
            for i in range(n):
                if free(i):
                    recs.append(ac.AcControlData(b.int(0, 15), b.enum(ac.AcPowerControl), b.enum(ac.AcModeControl), b.enum(ac.AcFanSpeedControl),
                                                 b.grid(0, 250, 100) if b.pick(2) else None))
                else:
                    recs.append(ac.AcControlData(i % 16, ac.AcPowerControl.TURN_ON, ac.AcModeControl.UNCHANGED, ac.AcFanSpeedControl.UNCHANGED, None))
            return C(ac.AcControlMessage(recs)), None
        if cls == "AcStatus":
            recs = []
            for i in range(n):
                if free(i):
                    recs.append(st.AcStatusData(b.int(0, 15), b.enum(st.AcPowerState), b.enum(st.AcMode), b.enum(st.AcFanSpeed), b.flag(), b.flag(), b.flag(),
                                                b.flag(), b.grid(0, 250, 100), b.grid(0, 2000, -500), b.int(0, 65535)))
                else:
                    recs.append(st.AcStatusData(i % 16, st.AcPowerState.ON, st.AcMode.HEAT, st.AcFanSpeed.LOW, False, False, False, True, 22.0, 23.0, 0))
            return C(st.AcStatusMessage(recs)), None      # AT5: the sub-header (record length) tells an empty report from a request
        if cls == "AcStatusRequest":
            return C(st.AcStatusRequest()), None
        if cls in ("AcTimerControl", "AcTimerStatus"):
            recs = []
            for i in range(n):
                if free(i):
                    recs.append(ts.AcTimerStatusData(b.int(0, 15), _timer_state(b, ts), _timer_state(b, ts)))
                else:
                    recs.append(ts.AcTimerStatusData(i % 16, ts.AcTimerState(False, 7, 31), ts.AcTimerState(True, 0, 0)))
            if cls == "AcTimerControl":
                return C(tc.AcTimerControlMessage(recs)), ("AcTimerControlEmpty" if n == 0 else None)
            return C(ts.AcTimerStatusMessage(recs)), None      # AT5: the sub-header (record length) tells an empty report from a request
        if cls == "AcTimerStatusRequest":
            return C(ts.AcTimerStatusRequest()), None
        if cls == "ErrorInfo":
            k = b.pick(2)
            return E(er.AcErrorInformationMessage(b.int(0, 15), None if k == 0 else b.text(3, forbid=(), min_len=1))), None
        if cls == "ErrorInfoRequest":
            return E(er.AcErrorInformationRequest(b.int(0, 15))), None
        if cls == "Ability":
            recs = []
            for i in range(n):
                fm = [m for m in ab.AcModeControl if m is not ab.AcModeControl.UNCHANGED]
                ff = [m for m in ab.AcFanSpeedControl if m is not ab.AcFanSpeedControl.UNCHANGED]
                modes = {m: (b.flag() if j in (i % 5, (i + 3) % 5) else (j % 2 == 0)) for j, m in enumerate(fm)}
                modes[ab.AcModeControl.UNCHANGED] = True
                fans = {m: (b.flag() if j in (i % 8, (i + 7) % 8) else (j % 2 == 1)) for j, m in enumerate(ff)}
                fans[ab.AcFanSpeedControl.UNCHANGED] = True
                if not free(i):
                    recs.append(ab.AcAbility(i % 16, "FIXED", 0, 2, {m: True for m in ab.AcModeControl}, {m: True for m in ab.AcFanSpeedControl}, 16, 30, 17, 31))
                    continue
                recs.append(ab.AcAbility(b.int(0, 15), b.text(2, concrete_tail=_WIDE16[b.pick(3)]), b.int(0, 15), b.int(0, 16), modes, fans,
                                         b.int(0, 63), b.int(0, 63), b.int(0, 63), b.int(0, 63)))
            return E(ab.AcAbilityMessage(recs)), ("AbilityRequestALL" if n == 0 else None)
        if cls == "AbilityRequest":
            k = b.pick(2)
            return E(ab.AcAbilityRequest("ALL" if k == 0 else b.int(0, 15))), None
        if cls == "Names":
            names = {}
            for i in range(n):
                key = [(1, 3), (2, 12)][i % 2][b.pick(2)]
                names[key] = b.text(3, forbid=(), concrete_tail="x" if i else "")
            return E(nm.ZoneNamesMessage(names)), ("NamesRequestALL" if n == 0 else None)
        if cls == "NamesRequest":
            k = b.pick(2)
            return E(nm.ZoneNamesRequest("ALL" if k == 0 else b.int(0, 15))), None
        if cls == "QuickTimer":
            mins = b.int(0, 1439)
            d = shims.SxTimedelta.symbolic(mins * 60) if ctx.symbolic else datetime.timedelta(minutes=mins)
            return E(qt.QuickTimerMessage(b.int(0, 15), b.enum(qt.TimerType), d)), None
        if cls == "Version":
            k = b.pick(2)
            vs = [b.text(3, forbid=(0x2C,), min_len=1)] + ([b.text(2, forbid=(0x2C,), min_len=1)] if k else [])
            return E(cv.ConsoleVersionMessage(b.flag(), vs)), None
        if cls == "VersionRequest":
            return E(cv.ConsoleVersionRequest()), None
    raise ValueError(cls)


# ------------------------------------------------------------------------- deep equality without forking

def deep_eq(a, b):
    """(Sym)Bool: structural equality of message object graphs that may hold proxies."""
    if isinstance(a, EnumProxy) or isinstance(b, EnumProxy):
        return a == b
    if isinstance(a, (Utf8Str, str)) and isinstance(b, (Utf8Str, str)):
        return Utf8Str.of(a) == Utf8Str.of(b)
    if isinstance(a, (SymBytes, bytes, bytearray)) and isinstance(b, (SymBytes, bytes, bytearray)):
        return bytes_eq(a, b)
    if dataclasses.is_dataclass(a) and not isinstance(a, type):
        if type(a) is not type(b):
            return False
        return sym_and(*[deep_eq(getattr(a, f.name), getattr(b, f.name)) for f in dataclasses.fields(a)])
    if isinstance(a, dict) and isinstance(b, dict):
        if set(a.keys()) != set(b.keys()):
            return False
        return sym_and(*[deep_eq(a[k], b[k]) for k in a])
    if isinstance(a, (list, tuple)) and isinstance(b, (list, tuple)):
        if len(a) != len(b):
            return False
        return sym_and(*[deep_eq(x, y) for x, y in zip(a, b)])
    if isinstance(a, (set, frozenset)) and isinstance(b, (set, frozenset)):
        return a == b
    if a is None or b is None:
        return a is None and b is None
    if isinstance(a, (SymBool, bool)) and isinstance(b, (SymBool, bool)):
        if isinstance(a, bool) and isinstance(b, bool):
            return a == b
        return (a if isinstance(a, SymBool) else SymBool(z3.BoolVal(a))) == b
    r = (a == b)
    return r


def _is_empty_identified(sent, got, ident):
    """count-0 messages read back as the request with the same wire form."""
    if ident is None:
        return False
    inner_s = getattr(sent, "sub_message", sent)
    inner_g = getattr(got, "sub_message", got)
    name = type(inner_g).__name__
    if ident.endswith("ALL"):
        return name.endswith("Request") and getattr(inner_g, next(iter(vars(inner_g)), ""), None) == "ALL"
    if ident == "AcTimerControlEmpty":
        return False
    return name.endswith("Request")


def _run_pair(ctx, p):
    """Two different messages of the same class (every one of the 18 catalogue classes, solver-chosen; for the text-carrying
    ones the two differ in length) are accepted while the link is down and flushed together when it comes up. The wire holds
    the reference frames of exactly these two, and fed back into the receive path they parse back as the two messages."""
    from . import catalog
    g = Gen(p["gen"])
    S = socket_mod()
    cat = catalog.catalog(g)
    entry = cat[ctx.choice("entry", len(cat))]
    ia, ib = 1, 2
    a, b = entry[1](ia), entry[1](ib)
    detail = {"cls": entry[0]}
    with Rig(ctx, g) as rig:
        rig.net.on_connect = lambda net, n: ("refuse",) if n == 0 else ("accept", 0)
        sent = []

        async def go():
            await rig.sock.open_socket()
            import asyncio
            await asyncio.sleep(0.5)
            for m in (a, b):
                try:
                    await rig.sock.send(m, S.RETRY_IDEMPOTENT)
                    sent.append("ok")
                except Exception as e:  # noqa: BLE001
                    sent.append(repr(e))

        rig.spawn(go())
        rig.loop.vt_run(3.5)
        conn = rig.net.conns[0] if rig.net.conns else None
        ctx.check(sent == ["ok", "ok"] and conn is not None, "delivered_once", detail=dict(detail, sent=sent))
        wire = [int(x) for x in conn.written()]
        try:
            frames = framing.parse_stream(g.n, wire)
        except ValueError as e:            # the reference receiver cannot read the wire at all
            frames = []
            detail = dict(detail, reference_receiver=str(e))
        ctx.observe("frames", len(frames))
        ctx.check(len(frames) == 2, "lengths_agree", detail=dict(detail, frames=len(frames), why="the reference receiver does not find two frames on the wire"))
        datas = [bytes(f["data"]) for f in frames]
        ctx.check(datas == [bytes(entry[3](ia)), bytes(entry[3](ib))], "lengths_agree",
                  detail=dict(detail, wire=[d.hex() for d in datas], reference=[bytes(entry[3](ia)).hex(), bytes(entry[3](ib)).hex()]))
        conn.send(bytes(wire))
        rig.loop.vt_run(4.5)
        got = [m for _, h, m in rig.received]
        ctx.check(len(got) == 2 and len(rig.net.conns) == 1, "delivered_once", detail=dict(detail, received=len(got), conns=len(rig.net.conns)))
        # what each reference frame reads as on its own (catalogue instances need not list every record the decoder returns)
        for i, have in zip((ia, ib), got):
            data = bytes(entry[3](i))
            hdr = g.Header(catalog.to_address(entry[2]), 0xB0, 0, entry[2], len(data))
            want = g.reg.get_decoder(entry[2]).decode(data, hdr).message
            ctx.check(want == have, "message_equal", detail=dict(detail, got=repr(getattr(have, "sub_message", have))[:160]))
        ctx.check(not rig.task_failures(), "delivered_once", detail="unhandled exception")
    for lab in expect_labels("quick"):
        ctx.reach(lab)


def run(ctx, p):
    if p["cls"] == "pair":
        return _run_pair(ctx, p)
    g = Gen(p["gen"])
    S = socket_mod()
    msg, ident = build(ctx, g, p["cls"], p["n"], p.get("free_at"))
    pid0 = ctx.byte("pid0")
    with Rig(ctx, g) as rig:
        # arbitrary packet id: walk the factory's counter there through its public method (concretised below 4 values)
        f = g.reg.header_factory
        if hasattr(f, "_next_packet_id"):
            f._next_packet_id = pid0
        sent = {}

        async def go():
            await rig.sock.open_socket()
            import asyncio
            await asyncio.sleep(0.25)
            try:
                await rig.sock.send(msg, S.RETRY_NON_IDEMPOTENT)
                sent["ok"] = True
            except Exception as e:  # noqa: BLE001
                sent["exc"] = e

        rig.spawn(go())
        rig.loop.vt_run(1.0)
        detail = {"cls": p["cls"], "n": p["n"]}
        conn = rig.net.conns[0] if rig.net.conns else None
        wire = conn.written() if conn else []
        ctx.check(sent.get("ok") is True and len(conn.writes) == 3, "delivered_once", detail=dict(detail, send=repr(sent.get("exc"))))
        hl = framing.header_len(g.n)
        cs = framing.covered_start(g.n)
        payload_len = len(wire) - hl - 2
        ctx.check(payload_len >= 0, "lengths_agree", detail=dict(detail, wire=len(wire)))
        announced = (wire[cs + 4] << 8) | wire[cs + 5]
        ctx.check(announced == payload_len, "lengths_agree", detail=dict(detail, payload=payload_len, why="header length vs bytes produced"))
        ctx.check(len(conn.writes[1][1]) == payload_len and len(conn.writes[0][1]) == hl and len(conn.writes[2][1]) == 2, "lengths_agree", detail=detail)
        if g.n == 5:
            tot = 10 + payload_len + 2
            ctx.check(sym_and(bytes_eq(wire[6:8], framing.be16(tot)), bytes_eq(wire[8:10], framing.be16(tot))), "lengths_agree",
                      detail=dict(detail, why="AT5 outer length"))
            if len(wire) > hl and not isinstance(wire[cs + 3], SymInt) and wire[cs + 3] == 0xC0:
                sub = wire[hl:hl + 8]
                nl = (sub[2] << 8) | sub[3]
                rl = (sub[4] << 8) | sub[5]
                rc = (sub[6] << 8) | sub[7]
                ctx.check(nl + rl * rc == payload_len - 8, "lengths_agree", detail=dict(detail, why="0xC0 sub-header lengths"))
        # the reference framing accepts the frame (prefix, CRC over the right span)
        # check bytes = the checksum of exactly address..payload. The span is what is decided here; that the repo's
        # calculate() is CRC-16/MODBUS for every buffer is C06's verdict (composition stated in DESIGN.md).
        span = wire[cs:hl + payload_len]
        chk = g.reg.checksum_calculator.calculate(SymBytes(span) if ctx.symbolic else bytes(span))
        ctx.check(bytes_eq(wire[hl + payload_len:], chk), "lengths_agree", detail=dict(detail, why="check bytes / span"))
        ctx.check(bytes_eq(wire[:cs], framing.frame(g.n, 0, 0, 0, 0, [0] * payload_len)[:cs]) if g.n == 4 else
                  sym_and(bytes_eq(wire[:6], [0x55, 0x55, 0x55, 0xAB, 0, 0]), bytes_eq(wire[10:14], [0x55, 0x55, 0x55, 0xAA])),
                  "lengths_agree", detail=dict(detail, why="prefix"))
        # loop back into the real receive path
        conn.send(SymBytes(wire) if ctx.symbolic else bytes(wire))
        rig.loop.vt_run(2.0)
        ctx.check(len(rig.received) == 1 and len(rig.net.conns) == 1, "delivered_once",
                  detail=dict(detail, received=len(rig.received), conns=len(rig.net.conns)))
        _, hdr, got = rig.received[0]
        exp_to = 0x90 if msg.message_id == 0x1F else 0x80
        ctx.check(sym_and(hdr.to_address == exp_to, hdr.from_address == 0xB0, hdr.packet_id == pid0, hdr.message_id == msg.message_id,
                          hdr.message_length == payload_len), "header_equal", detail=detail)
        eq = deep_eq(msg, got)
        if eq is False and _is_empty_identified(msg, got, ident):
            ctx.reach("message_equal")
        else:
            ctx.check(eq, "message_equal", detail=dict(detail, got=type(getattr(got, "sub_message", got)).__name__))
        left = conn.reader.buffered() if hasattr(conn.reader, "buffered") else len(conn.reader._buffer)
        ctx.check(left == 0, "nothing_left_over", detail=dict(detail, left=left))
        ctx.check(not rig.task_failures(), "delivered_once", detail="unhandled exception")
