"""C04 — commands on the wire mean what the vendor protocol says.

Every public control call on API objects (built by the real handshake against the scripted
console) with symbolic arguments/configuration; the frame the client writes is read with the
reference command reader (ref.at4 / ref.at5): addressing, type, lengths, check bytes, intended
AC/zone, requested attribute = requested value, every other attribute 'keep', padding zero.
"""
from __future__ import annotations

from ref import at4 as r4
from ref import at5 as r5
from ref import crc as refcrc
from ref import framing
from sx.values import SymBool, sym_and, sym_implies, sym_not, sym_or

from . import apicmd
from .common import bytes_eq

PID = "C04"
WALL_BUDGET = {"quick": 900, "thorough": 7200}
SAMPLE_RATE = {"quick": 0.02, "thorough": 0.002}
CHUNK = 32
STUBS = ["asyncio.open_connection -> FakeNet", "scripted reference console (handshake answers)", "loop -> VLoop"]
OUTSIDE = ["ability bitmaps: the bitmap relevant to the call is symbolic, the other one fixed", "AC numbers and zone numbers are varied one at a time (not jointly)",
           "AT4 set-point limits outside 0..62, AT5 limits outside 10..35 degC", "quick-timer durations of 3 days or more"]
ASSUMPTIONS = ["AT4 zone set-point/damper calls deliberately also send the matching control method (API docstring); the requested attribute is that pair",
               "set-point: within half a resolution step of the request after clamping; at decimal ties either neighbour is accepted (round(x,1) is modelled by its contract)",
               "quick timer / timer control messages are undocumented by the vendor: reference = the repo's documented layout"]


def bounds(tier):
    return {"temperature_grid": "j/20 for j in [-200,1200]", "damper": "[-5,105]", "ac_numbers": "0..3 (AT4) / 0..15 (AT5)", "zone_numbers": "0..15", "numbering": "fixed AC 1 / zone 3 except the addressing instances" if tier == "quick" else "every call over every AC / zone number", "ability_bitmaps": "the bitmap relevant to the call free, the other fixed" if tier == "quick" else "also both bitmaps free at once (ac_mode, ac_fan)"}


def instances(tier):
    return apicmd.instances(tier) + apicmd.sequence_instances(tier)


def expect_labels(tier):
    return ["addressing", "one_frame", "meaning", "check_bytes"]


def _keep(code, table):
    """The code is none of the defined 'set' codes (document: 'Other: keep ...')."""
    return sym_and(*[code != c for c in table])


def _code_of(table, name):
    for c, n in table.items():
        if n == name:
            return c
    raise KeyError(name)


def _within_half_step_clamped(k, j, lo, hi, scale, D=20):
    """k (in units of 1/scale degC) is the clamp to [lo,hi] of a value within half a step of j/D degC.
    In integers: |D*k - scale*j| <= D/2 unless clamped."""
    a = k * D
    b = j * scale
    h = D // 2
    return sym_and(k >= lo, k <= hi, sym_implies(k > lo, a - b <= h), sym_implies(k < hi, b - a <= h))


def run(ctx, p):
    if p.get("kind") == "call_sequence":
        apicmd.run_sequence(ctx, p, "meaning")
        for lab in expect_labels("quick"):
            ctx.reach(lab)
        return
    out = apicmd.scenario(ctx, p)
    env = out["env"]
    args = env["args"]
    call = p["call"]
    gen = out["gen"]
    detail = {"call": call, "args": {k: repr(v) for k, v in args.items()}, "raised": out["raised"]}
    ctx.check(out["init"] is True, "one_frame", detail="handshake failed")
    if out["raised"] is not None:
        # refused locally: C11's concern; nothing must have been written
        ctx.check(len(out["frames"]) == 0, "one_frame", detail=dict(detail, why="refused call wrote a frame"))
        for lab in ("addressing", "meaning", "check_bytes"):
            ctx.reach(lab)
        return
    frames = out["frames"]
    if p["vary"] == "beyond_field" and len(frames) == 0:
        # a set-point the protocol field cannot carry was not transmitted at all: nothing on the wire means anything else
        for lab in ("addressing", "one_frame", "meaning", "check_bytes"):
            ctx.reach(lab)
        return
    ctx.check(len(frames) == 1, "one_frame", detail=dict(detail, frames=len(frames)))
    fr = frames[0]
    data = fr["data"]
    ext = call in ("ac_timer_duration", "check_updates")
    exp_type = 0x1F if ext else {4: {"ac": 0x2C, "zone": 0x2A, "timer": 0x36}, 5: {"ac": 0xC0, "zone": 0xC0, "timer": 0xC0}}[gen][
        "timer" if call in ("ac_timer_time", "ac_timer_clear") else ("zone" if call.startswith("zone") else "ac")]
    ctx.check(sym_and(fr["to"] == (0x90 if ext else 0x80), fr["frm"] == 0xB0, fr["type"] == exp_type), "addressing", detail=detail)
    raw = fr["raw"]
    cs = framing.covered_start(gen)
    span = raw[cs:-2]
    if all(isinstance(b, int) for b in raw):
        ctx.check(bytes(raw[-2:]) == bytes(refcrc.check_bytes(span)), "check_bytes", detail=detail)
    else:
        # symbolic content: the span is decided here against the repo's calculate(); calculate == CRC-16/MODBUS is C06
        from sx.values import SymBytes
        from .common import Gen
        chk = Gen(gen).reg.checksum_calculator.calculate(SymBytes(span))
        ctx.check(bytes_eq(raw[-2:], chk), "check_bytes", detail=detail)
    a, z = env["ac"], env["zone"]
    m = _meaning(ctx, gen, call, data, env, args, a, z)
    ctx.check(m, "meaning", detail=detail)


def _meaning(ctx, gen, call, data, env, args, a, z):
    A = apicmd.api()
    if call == "check_updates":
        return bytes_eq(data, [0xFF, 0x30])
    if call == "ac_timer_duration":
        sub = 0xFF20 if gen == 4 else 0xFF49
        # the wire carries hours (modulo 24) and minutes: the requested duration to the minute - seconds dropped, or rounded
        # to the nearest minute (the message's documentation says "to the nearest minute"; the vendor document says neither)
        def hm(m):
            return (m // 60) % 24, m % 60
        mins = args["mins"]
        fl_h, fl_m = hm(mins)
        up_h, up_m = hm(mins + 1)
        tt = 1 if args["tt"] is A.AcTimerType.ON_TIMER else 0
        value_ok = sym_or(sym_and(data[4] == fl_h, data[5] == fl_m), sym_and(args["secs"] >= 30, data[4] == up_h, data[5] == up_m))
        return sym_and(len(data) == 6, bytes_eq(data[:2], framing.be16(sub)), data[2] == a, data[3] == tt, value_ok)
    if call in ("ac_timer_time", "ac_timer_clear"):
        on_dis, on_h, on_m, off_dis, off_h, off_m = env["timers"]
        if call == "ac_timer_time":
            new = (0, args["h"], args["m"])
        else:
            new = (1, 0, 0)
        if args["tt"] is A.AcTimerType.ON_TIMER:
            on, off = new, (off_dis, off_h, off_m)
        else:
            on, off = (on_dis, on_h, on_m), new
        exp = [(on[0] << 7) | on[1], on[2], (off[0] << 7) | off[1], off[2]]
        if gen == 4:
            if len(data) != 32:
                return False
            conds = []
            for n in range(4):
                rec = data[8 * n:8 * n + 8]
                if n == a:
                    conds.append(bytes_eq(rec, exp + [0, 0, 0, 0]))
                else:
                    conds.append(bytes_eq(rec, [0] * 8))
            return sym_and(*conds)
        h = r5.sub_header(data[:8])
        return sym_and(h["sub_type"] == 0x32, h["normal_len"] == 0, h["repeat_len"] == 9, h["repeat_count"] == 1, len(data) == 17,
                       bytes_eq(data[8:], [a] + exp + [0, 0, 0, 0]))
    if gen == 4:
        if call.startswith("ac_"):
            if len(data) != 4:
                return False
            c = r4.ac_control(data)
            base = [c["ac_number"] == a, c["pad"] == 0]
            keep_power = _keep(c["power_code"], r4.CTRL_AC_POWER)
            keep_mode = _keep(c["mode_code"], r4.CTRL_AC_MODE)
            keep_fan = _keep(c["fan_code"], r4.CTRL_AC_FAN)
            keep_sp = sym_and(c["sp_type"] == 0, c["sp_value"] == 0x3F)     # "Set to 0x3f when bit8-7 are not 01"
            if call == "ac_power":
                return sym_and(*base, c["power_code"] == _code_of(r4.CTRL_AC_POWER, args["pc"].name), keep_mode, keep_fan, keep_sp)
            if call == "ac_mode":
                pw = (c["power_code"] == 3) if args["power_on"] else keep_power
                return sym_and(*base, c["mode_code"] == _code_of(r4.CTRL_AC_MODE, args["mode"].name), pw, keep_fan, keep_sp)
            if call == "ac_fan":
                return sym_and(*base, c["fan_code"] == _code_of(r4.CTRL_AC_FAN, args["fs"].name), keep_power, keep_mode, keep_sp)
            if call == "ac_temp":
                lo, hi = env["limits"]
                return sym_and(*base, keep_power, keep_mode, keep_fan, c["sp_type"] == 1,
                               _within_half_step_clamped(c["sp_value"], args["j"], lo, hi, 1, args["D"]))
        else:
            if len(data) != 4:
                return False
            c = r4.group_control(data)
            base = [c["group_number"] == z, c["pad"] == 0]
            keep_power = _keep(c["power_code"], r4.CTRL_GROUP_POWER)
            keep_setting = _keep(c["setting_code"], r4.CTRL_GROUP_SETTING)
            keep_method = _keep(c["method_code"], r4.CTRL_GROUP_METHOD)
            if call == "zone_power":
                return sym_and(*base, c["power_code"] == _code_of(r4.CTRL_GROUP_POWER, {"OFF": "TURN_OFF", "ON": "TURN_ON", "TURBO": "TURBO"}[args["ps"].name]),
                               keep_setting, keep_method)
            if call == "zone_temp":
                k = c["value"]
                D = args["D"]
                # the control method bits are judged separately (KF-C04-2): the frame also says "set to temperature control"
                _method_obligation(ctx, keep_method, c["method_code"], call, 3)
                return sym_and(*base, keep_power, c["setting_code"] == 5, k * D - args["j"] <= D // 2, args["j"] - k * D <= D // 2)
            if call == "zone_damper":
                _method_obligation(ctx, keep_method, c["method_code"], call, 2)
                return sym_and(*base, keep_power, c["setting_code"] == 4, c["value"] == args["pct"])
    else:
        if len(data) != 12:
            return False
        h = r5.sub_header(data[:8])
        hdr_ok = sym_and(h["pad"] == 0, h["normal_len"] == 0, h["repeat_len"] == 4, h["repeat_count"] == 1)
        rec = data[8:12]
        if call.startswith("ac_"):
            c = r5.ac_control_record(rec)
            base = [hdr_ok, h["sub_type"] == 0x22, c["ac_number"] == a]
            keep_power = _keep(c["power_code"], r5.CTRL_AC_POWER)
            keep_mode = _keep(c["mode_code"], r5.CTRL_AC_MODE)
            keep_fan = _keep(c["fan_code"], r5.CTRL_AC_FAN)
            keep_sp = c["sp_control"] == 0x00
            if call == "ac_power":
                return sym_and(*base, c["power_code"] == _code_of(r5.CTRL_AC_POWER, args["pc"].name), keep_mode, keep_fan, keep_sp)
            if call == "ac_mode":
                pw = (c["power_code"] == 3) if args["power_on"] else keep_power
                return sym_and(*base, c["mode_code"] == _code_of(r5.CTRL_AC_MODE, args["mode"].name), pw, keep_fan, keep_sp)
            if call == "ac_fan":
                return sym_and(*base, c["fan_code"] == _code_of(r5.CTRL_AC_FAN, args["fs"].name), keep_power, keep_mode, keep_sp)
            if call == "ac_temp":
                lc, hc, lh, hh = env["limits"]
                mc = env["mode_code"]
                # limits follow the current mode: heat -> heat limits, cool -> cool limits, otherwise the widest
                from sx.values import sym_ite
                lo = sym_ite(mc == 1, lh, sym_ite(mc == 4, lc, sym_ite(lh <= lc, lh, lc)))
                hi = sym_ite(mc == 1, hh, sym_ite(mc == 4, hc, sym_ite(hh >= hc, hh, hc)))
                K = c["sp_value"] + 100         # tenths of a degree: "Data to be sent = (setpoint * 10) - 100"
                return sym_and(*base, keep_power, keep_mode, keep_fan, c["sp_control"] == 0x40,
                               _within_half_step_clamped(K, args["j"], lo * 10, hi * 10, 10, args["D"]))
        else:
            c = r5.zone_control_record(rec)
            base = [hdr_ok, h["sub_type"] == 0x20, c["zone_number"] == z, c["pad"] == 0, c["type_code"] == 0]
            keep_power = _keep(c["power_code"], r5.CTRL_ZONE_POWER)
            keep_setting = _keep(c["setting_code"], r5.CTRL_ZONE_SETTING)
            if call == "zone_power":
                return sym_and(*base, c["power_code"] == _code_of(r5.CTRL_ZONE_POWER, {"OFF": "TURN_OFF", "ON": "TURN_ON", "TURBO": "TURBO"}[args["ps"].name]),
                               keep_setting)
            if call == "zone_temp":
                K = c["value"] + 100
                D = args["D"]
                # document: "When set temperature: 0-250, setpoint=(value+100)/10; Other: Keep setting value"
                return sym_and(*base, keep_power, c["setting_code"] == 5, c["value"] <= 250, K * D - args["j"] * 10 <= D // 2, args["j"] * 10 - K * D <= D // 2)
            if call == "zone_damper":
                return sym_and(*base, keep_power, c["setting_code"] == 4, c["value"] == args["pct"])
    return False


def _method_obligation(ctx, keep_method, method_code, call, switched_to):
    """AT4 zone set-point / damper requests: 'marks every other attribute as keep' includes the zone's control method (an exposed
    attribute). The AT4 client deliberately sends 'set to temperature / percentage control' along with the value (its source
    says so; the AT5 client sends 'keep'). Recorded as KF-C04-2, not repaired: whether an AirTouch 4 console applies a value
    while the zone is in the other control method is not documented, so switching back to 'keep' may stop the request from
    having any effect. Any *other* method code is a violation."""
    ctx.check(keep_method, "meaning", known=[("KF-C04-2", method_code == switched_to)],
              detail={"call": call, "why": "control method bits are neither 'keep' nor the recorded switch"})


def _half_step_tenths(K, j, lo10, hi10):
    """K tenths of a degree is the clamp to [lo10,hi10] of a value within 0.05 degC of j/20: |2K - j| <= 1 unless clamped."""
    return sym_and(K >= lo10, K <= hi10, sym_implies(K > lo10, K * 2 - j <= 1), sym_implies(K < hi10, j - K * 2 <= 1))
