"""C05 — status frames are interpreted as the vendor protocol defines.

Every status / ability / names / version / error / timer payload, with every byte symbolic, is
decoded by the real registry decoder (through the 0x1F / 0xC0 wrappers and their sub-headers)
and each decoded field is compared with the reference reading of the same bytes (ref.at4/at5).
A decoder that raises satisfies C05; one that returns must return exactly the reference reading.
"""
from __future__ import annotations

from ref import at4 as r4
from ref import at5 as r5
from ref import framing
from sx.values import SymBool, SymBytes, SymFloat, SymInt, Utf8Str, sym_and, sym_eq, sym_implies, sym_ite, sym_not, sym_or

from .common import Gen, bytes_eq, comms_mod

PID = "C05"
WALL_BUDGET = {"quick": 900, "thorough": 7200}
SAMPLE_RATE = {"quick": 0.02, "thorough": 0.002}
CHUNK = 48
STUBS = ["none: the decoders are called directly through the registry (get_decoder(type).decode(payload, header))"]
OUTSIDE = ["record counts above the stated bound", "names/text fields: at most the stated number of free bytes per string, the rest concrete",
           "names: zone/group number byte free in two bit positions per record; AT4 ability group bitmap free in 2-3 bit positions per instance (each free bit doubles the decoder's paths)",
           "AT5 strides more than the stated delta above the known layout"]
ASSUMPTIONS = ["member names of the repo's status enums carry the meaning compared with the document's code tables (a rename ends in a harness error, not a verdict)",
               "temperature/set-point of a sensor-less AT4 group / AT5 zone is absent (repo-documented model); byte5=0xFF (AT4) / VALUE>2000 (AT5) is 'not available' per the documents"]


def bounds(tier):
    return {"records": [1, 2] if tier == "quick" else [1, 2, 3, 4], "at5_stride_delta": [0, 1, 2] if tier == "quick" else [0, 1, 2, 3, 6],
            "free_name_bytes": 3 if tier == "quick" else 6}


def instances(tier):
    out = []
    recs = [1, 2] if tier == "quick" else [1, 2, 3, 4]
    deltas = [0, 1, 2] if tier == "quick" else [0, 1, 2, 3, 6]
    for n in recs:
        out.append({"kind": "at4_group_status", "n": n})
        out.append({"kind": "at4_ac_status", "n": n})
        out.append({"kind": "at4_timer_status", "n": n})
        for d in deltas:
            out.append({"kind": "at5_zone_status", "n": n, "delta": d})
            out.append({"kind": "at5_ac_status", "n": n, "delta": d})
            out.append({"kind": "at5_timer_status", "n": n, "delta": d})
    # documented "not available" codes of power state / mode / fan speed in AC status (an AC that is offline at the console)
    for g in (4, 5):
        out.append({"kind": "not_available_codes", "gen": g})
    # normal (non-repeated) data announced in front of the records
    for kind in ("at5_zone_status", "at5_ac_status", "at5_timer_status"):
        out.append({"kind": kind, "n": 2, "delta": 0, "normal": 2})
        out.append({"kind": kind, "n": 1, "delta": 2, "normal": 5})
    # history: the same (process-wide) decoder has seen a report with another record stride before
    for kind in ("at5_zone_status", "at5_ac_status", "at5_timer_status"):
        out.append({"kind": kind, "n": 2, "delta": 2, "after": 0})
        out.append({"kind": kind, "n": 2, "delta": 0, "after": 2})
    for fmt in (["22"], ["24"], ["22", "24"], ["24", "22"]):
        for gpos in ([[0, 7, 8], [1, 15]] if tier == "quick" else [[0, 7, 8], [1, 15], [2, 3, 4], [5, 6, 9], [10, 11, 12], [13, 14, 15]]):
            if "24" in fmt:
                out.append({"kind": "at4_ability", "fmt": fmt, "gpos": gpos})
        if "24" not in fmt:
            out.append({"kind": "at4_ability", "fmt": fmt, "gpos": []})
    for n in (1, 2):
        out.append({"kind": "at5_ability", "n": n})
    # ability records longer than the known layout: the record announces its own length ("following data length")
    for d in (2, 26):
        out.append({"kind": "at5_ability", "n": 2, "delta": d})
        out.append({"kind": "at4_ability", "fmt": [str(24 + d), "24"], "gpos": [0, 15]})
        out.append({"kind": "at4_ability", "fmt": ["22", str(24 + d)], "gpos": [1]})
    nb = 3 if tier == "quick" else 6
    for g in (4, 5):
        out.append({"kind": "names", "gen": g, "n": 1, "free": nb})
        out.append({"kind": "names", "gen": g, "n": 2, "free": 2})
        for L in (0, 1, nb):
            out.append({"kind": "error", "gen": g, "len": L})
            out.append({"kind": "version", "gen": g, "len": L})
        # the length byte announces more text than the frame holds (a frame cut inside its text field)
        for L, ann in ((0, 2), (2, 3), (2, 200)):
            out.append({"kind": "error", "gen": g, "len": L, "announced": ann})
            out.append({"kind": "version", "gen": g, "len": L, "announced": ann})
    return out


def expect_labels(tier):
    return ["at4_group_status", "at4_ac_status", "at4_timer_status", "at5_zone_status", "at5_ac_status", "at5_timer_status",
            "at4_ability", "at5_ability", "names", "error", "version", "consumed"]


# ------------------------------------------------------------------------- helpers

def enum_is(decoded, cls, table, code):
    """(Sym)Bool: decoded member equals the meaning the document assigns to `code`."""
    conds = [sym_or(*[code == c for c in table])]      # a returned value must come from a defined code
    for c, name in table.items():
        member = cls[name]
        conds.append(sym_eq_bool(code == c, decoded == member))
    return sym_and(*conds)


def sym_eq_bool(a, b):
    if isinstance(a, SymBool) or isinstance(b, SymBool):
        a = a if isinstance(a, SymBool) else SymBool(__import__("z3").BoolVal(bool(a)))
        return a == b
    return bool(a) == bool(b)


def flag_is(decoded, bit):
    """decoded bool equals bit (0/1)."""
    return sym_eq_bool(decoded, bit == 1)


def opt_float_is(ctx, decoded, absent, raw, offset, label, detail=None, known=()):
    """decoded Optional[float] equals (raw+offset)/10 unless absent."""
    if decoded is None:
        ctx.check(absent, label, detail=detail)
    else:
        ctx.check(sym_and(sym_not(absent), decoded == (raw + offset) / 10.0), label, detail=detail, known=known)


def _sym(ctx, data):
    return SymBytes(data) if ctx.symbolic else bytes(data)


def _decode(g, mtype, data, ctx):
    hdr = g.Header(0xB0, 0x90 if mtype == 0x1F else 0x80, 1, mtype, len(data))
    try:
        res = g.reg.get_decoder(mtype).decode(_sym(ctx, data), hdr)
    except Exception as e:  # noqa: BLE001  (a decoder that raises satisfies C05)
        return None, e
    return res, None


def run(ctx, p):
    k = p["kind"]
    fn = globals()["_" + k]
    if p.get("after") is not None:
        _prime(k, p["after"])
    return fn(ctx, p)


def _not_available_codes(ctx, p):
    """AC status records whose power state / mode / fan speed field carries a code the document calls 'Not available'
    (AT4: power 10/11, mode and fan 'Other'; AT5: 'Other'): C05 wants them decoded to absent values. The decoders raise
    instead (the whole frame is lost and the connection is reset) - recorded as KF-C05-4, not repaired: an absent value
    needs new enum members or Optional fields in the public message types."""
    gen = p["gen"]
    g = Gen(gen)
    field = ("power", "mode", "fan")[ctx.choice("field", 3)]
    if gen == 4:
        rec = r4.build_ac_status(1, 1, 4, 2, 0, 0, 22, 740, 0)
        if field == "power":
            rec[0] = (rec[0] & 0x3F) | (2 << 6)
        elif field == "mode":
            rec[1] = (rec[1] & 0x0F) | (0xF << 4)
        else:
            rec[1] = (rec[1] & 0xF0) | 0xF
        res, exc = _decode(g, 0x2D, rec, ctx)
        lab = "at4_ac_status"
    else:
        rec = r5.build_ac_status(1, 1, 4, 2, 120, 0, 0, 0, 0, 740, 0, pad=0)
        if field == "power":
            rec[0] = (rec[0] & 0x0F) | (0xF << 4)
        elif field == "mode":
            rec[1] = (rec[1] & 0x0F) | (0xF << 4)
        else:
            rec[1] = (rec[1] & 0xF0) | 0xF
        res, exc = _decode(g, 0xC0, framing.c0(0x23, [], 8, 1, rec), ctx)
        lab = "at5_ac_status"
    ctx.observe("decoded", res is not None)
    ctx.check(res is not None, lab, known=[("KF-C05-4", True)], detail={"gen": gen, "field": field, "raised": type(exc).__name__ if exc else None})
    for l in expect_labels("quick"):
        ctx.reach(l)


def _prime(kind, delta):
    """An earlier, concrete, valid report of the same kind with record stride known+delta goes through the registry's decoder."""
    g = Gen(5)
    pad = [0xAA] * delta
    if kind == "at5_zone_status":
        sub, known, recs = 0x21, 8, [r5.build_zone_status(n, 1, 1, 50, 120, 1, 730, 0, 0) + pad for n in (0, 1)]
    elif kind == "at5_ac_status":
        sub, known, recs = 0x23, 8, [r5.build_ac_status(n, 1, 4, 2, 120, 0, 0, 0, 0, 740, 0, pad=0) + pad for n in (0, 1)]
    else:
        sub, known, recs = 0x33, 9, [r5.build_timer_status(n, 0, 7, 30, 1, 0, 0) + pad for n in (0, 1)]
    data = framing.c0(sub, [], known + delta, 2, [b for r in recs for b in r])
    hdr = g.Header(0xB0, 0x80, 1, 0xC0, len(data))
    g.reg.get_decoder(0xC0).decode(bytes(data), hdr)


# ------------------------------------------------------------------------- AT4

def _at4_group_status(ctx, p):
    g = Gen(4)
    gs = g.m("x2B_group_status")
    n = p["n"]
    recs = [[ctx.byte(f"r{i}b{j}") for j in range(6)] for i in range(n)]
    res, exc = _decode(g, 0x2B, [b for r in recs for b in r], ctx)
    lab = "at4_group_status"
    if res is None:
        ctx.reach(lab)
        ctx.reach("consumed")
        return
    m = res.message.groups if hasattr(res.message, "groups") else None
    ctx.check(m is not None and len(m) == n, lab, detail="record count")
    for i, (d, r) in enumerate(zip(m, recs)):
        e = r4.group_status_record(r)
        det = {"record": i}
        ctx.check(d.group_number == e["group_number"], lab, detail=det)
        ctx.check(enum_is(d.power_state, gs.GroupPowerState, r4.GROUP_POWER_STATE, e["power_code"]), lab, detail=dict(det, f="power"))
        ctx.check(enum_is(d.control_method, gs.GroupControlMethod, r4.GROUP_CONTROL_METHOD, e["method_code"]), lab, detail=dict(det, f="method"))
        ctx.check(enum_is(d.battery_status, gs.SensorBatteryStatus, r4.BATTERY, e["battery_code"]), lab, detail=dict(det, f="battery"))
        ctx.check(d.damper_percentage == e["damper_percentage"], lab, detail=dict(det, f="damper"))
        ctx.check(flag_is(d.supports_turbo, e["supports_turbo"]), lab, detail=dict(det, f="turbo"))
        ctx.check(flag_is(d.has_sensor, e["has_sensor"]), lab, detail=dict(det, f="sensor"))
        ctx.check(flag_is(d.spill_active, e["spill"]), lab, detail=dict(det, f="spill"))
        no_sensor = e["has_sensor"] == 0
        opt_float_is(ctx, d.temperature, sym_or(no_sensor, e["temp_unavailable"]), e["temp_raw"], -500, lab, dict(det, f="temperature"))
        if d.set_point is None:
            ctx.check(no_sensor, lab, detail=dict(det, f="set_point"))
        else:
            ctx.check(sym_and(sym_not(no_sensor), d.set_point == e["set_point"]), lab, detail=dict(det, f="set_point"))
    ctx.check(len(res.remaining) == 0, "consumed")


def _at4_ac_status(ctx, p):
    g = Gen(4)
    st = g.m("x2D_ac_status")
    n = p["n"]
    recs = [[ctx.byte(f"r{i}b{j}") for j in range(8)] for i in range(n)]
    res, exc = _decode(g, 0x2D, [b for r in recs for b in r], ctx)
    lab = "at4_ac_status"
    if res is None:
        ctx.reach(lab)
        ctx.reach("consumed")
        return
    m = res.message.ac_status
    ctx.check(len(m) == n, lab, detail="record count")
    for i, (d, r) in enumerate(zip(m, recs)):
        e = r4.ac_status_record(r)
        det = {"record": i}
        ctx.check(d.ac_number == e["ac_number"], lab, detail=det)
        ctx.check(enum_is(d.power_state, st.AcPowerState, r4.AC_POWER_STATE, e["power_code"]), lab, detail=dict(det, f="power"))
        ctx.check(enum_is(d.mode, st.AcMode, r4.AC_MODE, e["mode_code"]), lab, detail=dict(det, f="mode"))
        ctx.check(enum_is(d.fan_speed, st.AcFanSpeed, r4.AC_FAN, e["fan_code"]), lab, detail=dict(det, f="fan"))
        ctx.check(flag_is(d.spill_active, e["spill"]), lab, detail=dict(det, f="spill"))
        ctx.check(flag_is(d.timer_set, e["timer_set"]), lab, detail=dict(det, f="timer"))
        ctx.check(d.set_point == e["set_point"], lab, detail=dict(det, f="set_point"))
        ctx.check(d.error_code == e["error_code"], lab, detail=dict(det, f="error"))
        # the documented "not available" sentinel must not decode to a defined temperature
        opt_float_is(ctx, d.temperature, e["temp_unavailable"], e["temp_raw"], -500, lab, dict(det, f="temperature"),
                     known=[("KF-C05-1", e["temp_unavailable"])])
    ctx.check(len(res.remaining) == 0, "consumed")


def _at4_timer_status(ctx, p):
    g = Gen(4)
    n = p["n"]
    recs = [[ctx.byte(f"r{i}b{j}") for j in range(8)] for i in range(n)]
    res, exc = _decode(g, 0x37, [b for r in recs for b in r], ctx)
    lab = "at4_timer_status"
    if res is None:
        ctx.reach(lab)
        ctx.reach("consumed")
        return
    m = res.message.ac_timer_status
    ctx.check(len(m) == n, lab)
    for i, (d, r) in enumerate(zip(m, recs)):
        e = r4.timer_status_record(r)
        ctx.check(d.ac_number == i, lab)
        for side, t in (("on", d.on_timer), ("off", d.off_timer)):
            ctx.check(sym_and(flag_is(t.disabled, e[side]["disabled"]), t.hour == e[side]["hour"], t.minute == e[side]["minute"]), lab,
                      detail={"record": i, "timer": side})
    ctx.check(len(res.remaining) == 0, "consumed")


def _name_is(ctx, decoded, raw, label, detail=None):
    """decoded str equals the bytes before the first NUL of raw (16/8-byte C string)."""
    raw = list(raw)
    # position of the first NUL: fork (positions are few)
    cut = len(raw)
    for i, b in enumerate(raw):
        if b == 0:
            cut = i
            break
    exp = raw[:cut]
    got = list(decoded.encode("utf-8")) if not isinstance(decoded, Utf8Str) else decoded.items
    ctx.check(bytes_eq(got, exp), label, detail=detail)


def _at4_ability(ctx, p):
    g = Gen(4)
    ab = g.m("x1FFF11_ac_ability")
    payload = []
    recs = []
    for i, f in enumerate(p["fmt"]):
        fl = int(f)
        name = [ctx.byte(f"n{i}_{j}") if j < 2 else (0x41 if j < 4 else 0) for j in range(16)]
        body = [ctx.byte(f"a{i}_{j}") for j in range(6)]           # start, count, modes, fans, min, max
        r = [ctx.byte(f"ac{i}"), fl] + name + body
        if fl >= 24:
            # group bitmap: the bits at the instance's positions are free, the others fixed (each free bit doubles the paths)
            word = 0x5A5A
            for pos in p["gpos"]:
                word = (word & (0xFFFF ^ (1 << pos))) | (ctx.bits(f"g{i}_{pos}", 1) << pos)
            r += [word & 0xFF, (word >> 8) & 0xFF]
            r += [ctx.byte(f"x{i}_{j}") for j in range(fl - 24)]      # bytes beyond the known layout (a later protocol version)
        recs.append(r)
        payload += r
    res, exc = _decode(g, 0x1F, framing.ext(0xFF11, payload), ctx)
    lab = "at4_ability"
    if res is None:
        ctx.reach(lab)
        ctx.reach("consumed")
        return
    acs = res.message.sub_message.ac_abilities
    ctx.check(len(acs) == len(recs), lab, detail="record count")
    for i, (d, r) in enumerate(zip(acs, recs)):
        e = r4.ability_record(r)
        det = {"record": i}
        ctx.check(sym_and(d.ac_number == e["ac_number"], d.start_group == e["start_group"], d.group_count == e["group_count"],
                          d.min_set_point == e["min_set_point"], d.max_set_point == e["max_set_point"]), lab, detail=det)
        for name, bit in r4.MODE_BIT.items():
            ctx.check(flag_is(d.ac_mode_support[ab.AcModeControl[name]], (e["mode_bits"] >> bit) & 1), lab, detail=dict(det, mode=name))
        for name, bit in r4.FAN_BIT.items():
            ctx.check(flag_is(d.fan_speed_support[ab.AcFanSpeedControl[name]], (e["fan_bits"] >> bit) & 1), lab, detail=dict(det, fan=name))
        _name_is(ctx, d.ac_name, e["name_bytes"], lab, dict(det, f="name"))
        if "group_bits" in e:
            ctx.check(d.groups is not None, lab, detail=dict(det, f="groups present"))
            # membership of each group number 0..15
            for n in range(16):
                member = n in d.groups if isinstance(d.groups, (set, frozenset)) else False
                ctx.check(flag_is(member, (e["group_bits"] >> n) & 1), lab, detail=dict(det, group=n))
            ctx.check(all(0 <= x <= 15 for x in d.groups), lab, detail=dict(det, f="group range"))
        else:
            ctx.check(d.groups is None, lab, detail=dict(det, f="groups absent"))
    ctx.check(len(res.remaining) == 0, "consumed")


# ------------------------------------------------------------------------- AT5

def _c0(sub, known, n, delta, ctx, prefix="r", normal=0):
    recs = [[ctx.byte(f"{prefix}{i}b{j}") for j in range(known + delta)] for i in range(n)]
    # "normal data" in front of the records (none in protocol v1.2; the document: "If the protocol is upgraded, this value may
    # change. Use this specific value for data parsing.")
    norm = [ctx.byte(f"{prefix}n{j}") for j in range(normal)]
    data = framing.c0(sub, norm, known + delta, n, [b for r in recs for b in r])
    return recs, data


def _at5_zone_status(ctx, p):
    g = Gen(5)
    zs = g.m("xC021_zone_status")
    recs, data = _c0(0x21, 8, p["n"], p["delta"], ctx, normal=p.get("normal", 0))
    res, exc = _decode(g, 0xC0, data, ctx)
    lab = "at5_zone_status"
    if res is None:
        ctx.reach(lab)
        ctx.reach("consumed")
        return
    m = res.message.sub_message.zones
    ctx.check(len(m) == p["n"], lab, detail="record count")
    for i, (d, r) in enumerate(zip(m, recs)):
        e = r5.zone_status_record(r)
        det = {"record": i}
        ctx.check(d.zone_number == e["zone_number"], lab, detail=det)
        ctx.check(enum_is(d.power_state, zs.ZonePowerState, r5.ZONE_POWER_STATE, e["power_code"]), lab, detail=dict(det, f="power"))
        ctx.check(enum_is(d.control_method, zs.ZoneControlMethod, r5.ZONE_CONTROL_METHOD, e["method_code"]), lab, detail=dict(det, f="method"))
        ctx.check(enum_is(d.battery_status, zs.SensorBatteryStatus, r5.BATTERY, e["battery_code"]), lab, detail=dict(det, f="battery"))
        ctx.check(d.damper_percentage == e["damper_percentage"], lab, detail=dict(det, f="damper"))
        ctx.check(flag_is(d.has_sensor, e["has_sensor"]), lab, detail=dict(det, f="sensor"))
        ctx.check(flag_is(d.spill_active, e["spill"]), lab, detail=dict(det, f="spill"))
        opt_float_is(ctx, d.temperature, sym_or(e["has_sensor"] == 0, e["temp_unavailable"]), e["temp_raw"], -500, lab, dict(det, f="temperature"))
        opt_float_is(ctx, d.set_point, e["set_point_invalid"], e["set_point_raw"], 100, lab, dict(det, f="set_point"))
    ctx.check(len(res.remaining) == 0, "consumed")


def _at5_ac_status(ctx, p):
    g = Gen(5)
    st = g.m("xC023_ac_status")
    recs, data = _c0(0x23, 8, p["n"], p["delta"], ctx, normal=p.get("normal", 0))
    res, exc = _decode(g, 0xC0, data, ctx)
    lab = "at5_ac_status"
    if res is None:
        ctx.reach(lab)
        ctx.reach("consumed")
        return
    m = res.message.sub_message.ac_status
    ctx.check(len(m) == p["n"], lab, detail="record count")
    for i, (d, r) in enumerate(zip(m, recs)):
        e = r5.ac_status_record(r)
        det = {"record": i}
        ctx.check(d.ac_number == e["ac_number"], lab, detail=det)
        ctx.check(enum_is(d.power_state, st.AcPowerState, r5.AC_POWER_STATE, e["power_code"]), lab, detail=dict(det, f="power"))
        ctx.check(enum_is(d.mode, st.AcMode, r5.AC_MODE, e["mode_code"]), lab, detail=dict(det, f="mode"))
        ctx.check(enum_is(d.fan_speed, st.AcFanSpeed, r5.AC_FAN, e["fan_code"]), lab, detail=dict(det, f="fan"))
        ctx.check(sym_and(flag_is(d.turbo_active, e["turbo"]), flag_is(d.bypass_active, e["bypass"]), flag_is(d.spill_active, e["spill"]),
                          flag_is(d.timer_set, e["timer_set"])), lab, detail=dict(det, f="flags"))
        ctx.check(d.error_code == e["error_code"], lab, detail=dict(det, f="error"))
        opt_float_is(ctx, d.set_point, e["set_point_unavailable"], e["set_point_raw"], 100, lab, dict(det, f="set_point"),
                     known=[("KF-C05-2", e["set_point_unavailable"])])
        opt_float_is(ctx, d.temperature, e["temp_unavailable"], e["temp_raw"], -500, lab, dict(det, f="temperature"),
                     known=[("KF-C05-3", e["temp_unavailable"])])
    ctx.check(len(res.remaining) == 0, "consumed")


def _at5_timer_status(ctx, p):
    g = Gen(5)
    recs, data = _c0(0x33, 9, p["n"], p["delta"], ctx, normal=p.get("normal", 0))
    res, exc = _decode(g, 0xC0, data, ctx)
    lab = "at5_timer_status"
    if res is None:
        ctx.reach(lab)
        ctx.reach("consumed")
        return
    m = res.message.sub_message.ac_timer_status
    ctx.check(len(m) == p["n"], lab)
    for i, (d, r) in enumerate(zip(m, recs)):
        e = r5.timer_status_record(r)
        ctx.check(d.ac_number == e["ac_number"], lab)
        for side, t in (("on", d.on_timer), ("off", d.off_timer)):
            ctx.check(sym_and(flag_is(t.disabled, e[side]["disabled"]), t.hour == e[side]["hour"], t.minute == e[side]["minute"]), lab,
                      detail={"record": i, "timer": side})
    ctx.check(len(res.remaining) == 0, "consumed")


def _at5_ability(ctx, p):
    g = Gen(5)
    ab = g.m("x1FFF11_ac_ability")
    recs = []
    payload = []
    for i in range(p["n"]):
        name = [ctx.byte(f"n{i}_{j}") if j < 2 else (0x41 if j < 4 else 0) for j in range(16)]
        delta = p.get("delta")
        if delta is None:
            # the announced length is free while the records are of the known size: only 24 is consistent with the bytes sent
            flb = ctx.byte(f"fl{i}")        # free: only some values are consistent with the bytes that follow (see below)
        else:
            flb = 24 + delta
        r = [ctx.byte(f"ac{i}"), flb] + name + [ctx.byte(f"a{i}_{j}") for j in range(8)] + [ctx.byte(f"x{i}_{j}") for j in range(delta or 0)]
        recs.append(r)
        payload += r
    res, exc = _decode(g, 0x1F, framing.ext(0xFF11, payload), ctx)
    lab = "at5_ability"
    if res is None:
        ctx.reach(lab)
        ctx.reach("consumed")
        return
    acs = res.message.sub_message.ac_abilities
    if p.get("delta") is None:
        # records of the known size with free "following length" bytes: the only consistent readings of n*26 bytes are n
        # records announcing 24, or (n = 2) one record announcing 50 whose tail is unknown data; anything else is malformed
        fls = [r[1] for r in recs]
        if len(recs) == 2 and len(acs) == 1:
            ctx.check(fls[0] == 50, lab, detail="one record delivered although the first does not announce the whole payload")
            recs = [recs[0] + recs[1]]
        else:
            ctx.check(sym_and(*[f == 24 for f in fls]), lab, detail="delivered although an announced record length disagrees with the bytes present")
    ctx.check(len(acs) == len(recs), lab, detail="record count")
    for i, (d, r) in enumerate(zip(acs, recs)):
        e = r5.ability_record(r)
        det = {"record": i}
        ctx.check(sym_and(d.ac_number == e["ac_number"], d.start_zone == e["start_zone"], d.zone_count == e["zone_count"],
                          d.min_cool_set_point == e["min_cool"], d.max_cool_set_point == e["max_cool"],
                          d.min_heat_set_point == e["min_heat"], d.max_heat_set_point == e["max_heat"]), lab, detail=det)
        for name, bit in r5.MODE_BIT.items():
            ctx.check(flag_is(d.ac_mode_support[ab.AcModeControl[name]], (e["mode_bits"] >> bit) & 1), lab, detail=dict(det, mode=name))
        for name, bit in r5.FAN_BIT.items():
            ctx.check(flag_is(d.fan_speed_support[ab.AcFanSpeedControl[name]], (e["fan_bits"] >> bit) & 1), lab, detail=dict(det, fan=name))
        _name_is(ctx, d.ac_name, e["name_bytes"], lab, dict(det, f="name"))
    ctx.check(len(res.remaining) == 0, "consumed")


# ------------------------------------------------------------------------- strings

def _names(ctx, p):
    g = Gen(p["gen"])
    n, free = p["n"], p["free"]
    payload = []
    exp = []
    for i in range(n):
        # the zone/group number is a dict key in the decoded message: two free bits (positions vary per record), rest fixed
        kp = [(0, 7), (3, 4)][i % 2]
        num = (ctx.bits(f"z{i}a", 1) << kp[0]) | (ctx.bits(f"z{i}b", 1) << kp[1]) | (0x02 if i == 0 else 0x00)
        if g.n == 4:
            name = [ctx.byte(f"c{i}_{j}") if j < free else 0 for j in range(8)]
            payload += [num] + name
            exp.append((num, name, None))
        else:
            ln = ctx.choice(f"len{i}", free + 1)
            name = [ctx.byte(f"c{i}_{j}") for j in range(ln)]
            payload += [num, ln] + name
            exp.append((num, name, ln))
    sub = 0xFF12 if g.n == 4 else 0xFF13
    res, exc = _decode(g, 0x1F, framing.ext(sub, payload), ctx)
    lab = "names"
    if res is None:
        ctx.reach(lab)
        ctx.reach("consumed")
        return
    sm = res.message.sub_message
    mapping = getattr(sm, "group_names", None) if g.n == 4 else getattr(sm, "zone_names", None)
    if mapping is None:
        # payload of length 0/1 reads as a request; only possible for AT5 with n == 1 and zero-length name... not here
        ctx.check(False, lab, detail="decoded as a request")
    # later records with the same number overwrite earlier ones (last one wins)
    for i, (num, name, ln) in enumerate(exp):
        shadowed = sym_or(*[exp[j][0] == num for j in range(i + 1, n)]) if i + 1 < n else False
        if bool(shadowed) if isinstance(shadowed, SymBool) else shadowed:
            continue
        key = num.__index__() if isinstance(num, SymInt) else num
        ctx.check(key in mapping, lab, detail={"record": i})
        got = mapping[key]
        if g.n == 4:
            _name_is(ctx, got, name, lab, {"record": i})
        else:
            gl = got.items if isinstance(got, Utf8Str) else list(got.encode("utf-8"))
            ctx.check(bytes_eq(gl, name), lab, detail={"record": i})
    ctx.check(len(res.remaining) == 0, "consumed")


def _error(ctx, p):
    g = Gen(p["gen"])
    L = p["len"]
    ac = ctx.byte("ac")
    text = [ctx.byte(f"t{j}") for j in range(L)]
    ann = p.get("announced", L)
    res, exc = _decode(g, 0x1F, framing.ext(0xFF10, [ac, ann] + text), ctx)
    lab = "error"
    if ann > L:
        ctx.check(res is None, lab, detail={"why": "text shorter than announced was decoded", "announced": ann, "present": L})
        ctx.reach("consumed")
        return
    if res is None:
        ctx.reach(lab)
        ctx.reach("consumed")
        return
    sm = res.message.sub_message
    ctx.check(sm.ac_number == ac, lab)
    if L == 0:
        ctx.check(sm.error_info is None, lab, detail="no error text must decode to None")
    else:
        gl = sm.error_info.items if isinstance(sm.error_info, Utf8Str) else list(sm.error_info.encode("utf-8"))
        ctx.check(bytes_eq(gl, text), lab)
    ctx.check(len(res.remaining) == 0, "consumed")


def _version(ctx, p):
    g = Gen(p["gen"])
    L = p["len"]
    upd = ctx.byte("upd")
    text = [ctx.byte(f"t{j}") for j in range(L)]
    ann = p.get("announced", L)
    res, exc = _decode(g, 0x1F, framing.ext(0xFF30, [upd, ann] + text), ctx)
    lab = "version"
    if ann > L:
        ctx.check(res is None, lab, detail={"why": "text shorter than announced was decoded", "announced": ann, "present": L})
        ctx.reach("consumed")
        return
    if res is None:
        ctx.reach(lab)
        ctx.reach("consumed")
        return
    sm = res.message.sub_message
    ctx.check(sym_eq_bool(sm.update_available, upd != 0), lab, detail="update sign: 0 latest, other = new version available")
    sep = 0x7C if g.n == 4 else 0x2C
    # reference split on the separator byte
    parts = [[]]
    for b in text:
        if b == sep:
            parts.append([])
        else:
            parts[-1].append(b)
    got = list(sm.versions)
    ctx.check(len(got) == len(parts), lab, detail={"parts": len(got)})
    for a, b in zip(got, parts):
        gl = a.items if isinstance(a, Utf8Str) else list(a.encode("utf-8"))
        ctx.check(bytes_eq(gl, b), lab)
    ctx.check(len(res.remaining) == 0, "consumed")
