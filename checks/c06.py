"""C06 — checksum is CRC-16/MODBUS; damaged frames are never delivered.

(a) the real Crc16Modbus.calculate/validate on symbolic buffers == bitwise reference CRC
(b) the real receive path (_read/_read_one_message) on a damaged frame: delivery only if the
    reference receiver accepts; otherwise reset, reconnect, and the probe frame is delivered
(c) membership lemmas about the reference CRC (which error patterns CRC-16/MODBUS detects)
"""
from __future__ import annotations

import importlib
import time

import z3

from ref import crc as refcrc
from ref import framing
from sx.values import SymBytes, SymInt, sym_and, sym_not, sym_or

from .common import Gen, Rig, bytes_eq

PID = "C06"
WALL_BUDGET = {"quick": 600, "thorough": 5400}
SAMPLE_RATE = {"quick": 0.2, "thorough": 0.05}
STUBS = ["asyncio.open_connection -> FakeNet (accepts at once)", "StreamReader -> StubReader (readexactly contract) when bytes are symbolic",
         "loop -> VLoop (virtual time)"]
OUTSIDE = ["calculate/validate: buffers longer than the stated length (induction on length is an argument, not a verdict)",
           "receive path: payloads longer than the stated bound; error patterns that change the announced length are only covered by 'delivered implies the reference receiver accepts'",
           "bursts counted MSB-first or straddling data and check bytes are not all detected by CRC-16/MODBUS as framed by the vendor (see DESIGN.md section 5)"]
ASSUMPTIONS = ["reference CRC is the bitwise definition (poly 0xA001 reflected, init 0xFFFF), validated against 13 vendor-document vectors",
               "receive-path obligations take the reference check bytes of a symbolic span from a fresh instance of the repo's calculate(); its equality with the bitwise reference for every byte string of each span length used is decided by the calc obligations of the same run (composition)"]


def bounds(tier):
    return {"calc_len": _calc_lens(tier), "rx_payload": _rx_payloads(tier), "lemma_data_bytes": 8 if tier == "quick" else 16}


def _calc_lens(tier):
    return [0, 1, 2, 3, 4, 6, 8] if tier == "quick" else list(range(0, 25)) + [32]


def _rx_payloads(tier):
    return [0, 2] if tier == "quick" else [0, 1, 2, 3]


def instances(tier):
    out = []
    for L in _calc_lens(tier):
        out.append({"kind": "calc", "len": L})
    out.append({"kind": "inj2"})
    for L in ([0, 2, 6] if tier == "quick" else [0, 1, 2, 3, 6, 12, 20]):
        out.append({"kind": "validate", "len": L})
    out.append({"kind": "validate_badlen"})
    for L in ([2] if tier == "quick" else [0, 2, 6]):
        out.append({"kind": "validate_twice", "len": L})
    for g in (4, 5):
        for n in _rx_payloads(tier):
            for where in ("addr", "data", "crc", "type", "len"):
                if where == "data" and n == 0:
                    continue
                out.append({"kind": "rx", "gen": g, "payload": n, "where": where})
        # history: damaged frames again and again (one per connection): each is rejected, each time the connection comes back
        out.append({"kind": "rx_repeat", "gen": g, "count": 6 if tier == "quick" else 12})
        # the damaged frame is followed, in the same segment, by the beginning of a frame that never completes on that connection
        out.append({"kind": "rx", "gen": g, "payload": 2, "where": "crc", "trailing": True})
        out.append({"kind": "rx", "gen": g, "payload": 2, "where": "data", "trailing": True})
        # closing the connection that carried the damaged frame reports an error itself (the console answered with a reset, the
        # peer has vanished): the connection is re-established all the same
        out.append({"kind": "rx", "gen": g, "payload": 2, "where": "crc", "close_error": True})
        out.append({"kind": "rx", "gen": g, "payload": 0, "where": "type", "close_error": True})
        for where in ("addr", "data", "crc"):
            # history: the intact frame is received first, its damaged copy right behind it
            out.append({"kind": "rx", "gen": g, "payload": 2, "where": where, "after_good": True})
    return out


def expect_labels(tier):
    return ["calc.equals_reference", "inj2", "validate.iff_reference", "validate.badlen_raises",
            "rx.delivered_implies_reference_accepts", "rx.reject_resets_and_recovers", "rx.validate_span"]


def _crc_mod():
    return importlib.import_module("pyairtouch.comms.crc16")


def run(ctx, p):
    kind = p["kind"]
    if kind == "calc":
        calc = _crc_mod().Crc16Modbus()
        buf = [ctx.byte(f"b{i}") for i in range(p["len"])]
        out = calc.calculate(SymBytes(buf) if ctx.symbolic else bytes(buf))
        ctx.observe("crc", out)
        ctx.check(bytes_eq(out, refcrc.check_bytes(buf)), "calc.equals_reference")
        ctx.check(len(out) == 2 and calc.checksum_length == 2, "calc.equals_reference")
    elif kind == "inj2":
        # the map (b0,b1) -> register after two bytes is injective (hence onto the 65536 registers):
        # buffers of length <= 3 therefore exercise every (register, byte) step of the algorithm
        calc = _crc_mod().Crc16Modbus()
        a = [ctx.byte("a0"), ctx.byte("a1")]
        b = [ctx.byte("c0"), ctx.byte("c1")]
        ra = calc.calculate(SymBytes(a) if ctx.symbolic else bytes(a))
        rb = calc.calculate(SymBytes(b) if ctx.symbolic else bytes(b))
        same_out = bytes_eq(ra, rb)
        same_in = bytes_eq(a, b)
        ctx.check(sym_or(sym_not(same_out), same_in), "inj2")
    elif kind == "validate":
        calc = _crc_mod().Crc16Modbus()
        buf = [ctx.byte(f"b{i}") for i in range(p["len"])]
        chk = [ctx.byte("k0"), ctx.byte("k1")]
        r = calc.validate(SymBytes(buf) if ctx.symbolic else bytes(buf), SymBytes(chk) if ctx.symbolic else bytes(chk))
        ref_ok = bytes_eq(chk, refcrc.check_bytes(buf))
        ctx.observe("valid", r)
        ctx.check(r == ref_ok, "validate.iff_reference")
    elif kind == "validate_twice":
        # the verdict on a frame does not depend on the frames validated before it (one calculator per registry, for good)
        calc = _crc_mod().Crc16Modbus()
        buf1 = [ctx.byte(f"a{i}") for i in range(p["len"])]
        buf2 = [ctx.byte(f"b{i}") for i in range(p["len"])]
        chk1 = [ctx.byte("j0"), ctx.byte("j1")]
        chk2 = [ctx.byte("k0"), ctx.byte("k1")]
        w = (lambda x: SymBytes(x) if ctx.symbolic else bytes(x))
        r1 = calc.validate(w(buf1), w(chk1))
        r2 = calc.validate(w(buf2), w(chk2))
        ctx.observe("valid", [r1, r2])
        ctx.check(r1 == bytes_eq(chk1, refcrc.check_bytes(buf1)), "validate.iff_reference")
        ctx.check(r2 == bytes_eq(chk2, refcrc.check_bytes(buf2)), "validate.iff_reference", detail="second validation on the same calculator")
    elif kind == "validate_badlen":
        calc = _crc_mod().Crc16Modbus()
        n = ctx.choice("n", 4)
        n = n if n < 2 else n + 1   # 0,1,3,4
        chk = [ctx.byte(f"k{i}") for i in range(n)]
        try:
            calc.validate(b"\x01\x02", SymBytes(chk) if ctx.symbolic else bytes(chk))
            raised = False
        except ValueError:
            raised = True
        ctx.check(raised, "validate.badlen_raises")
    elif kind == "rx":
        _run_rx(ctx, p)
    elif kind == "rx_repeat":
        _run_rx_repeat(ctx, p)
    else:
        raise ValueError(kind)


def _ref_check(ctx, span):
    """Reference check bytes of a span in the receive-path obligations. For symbolic spans this is a *fresh* instance of the
    repo's calculate() - equal to the bitwise CRC-16/MODBUS reference for every byte string of that length by the
    'calc.equals_reference' obligations of the same run (span lengths used here are all among the calc lengths) - so that the
    solver compares like with like instead of re-deriving table == bitwise inside every receive-path query (those queries ran
    60-120 s and timed out under load)."""
    if all(isinstance(b, int) for b in span):
        return refcrc.check_bytes(span)
    return list(_crc_mod().Crc16Modbus().calculate(SymBytes(span)))


class _SpyCalc:
    def __init__(self, real):
        self.real = real
        self.calls = []

    @property
    def checksum_length(self):
        return self.real.checksum_length

    def calculate(self, buffer):
        return self.real.calculate(buffer)

    def validate(self, buffer, checksum):
        r = self.real.validate(buffer, checksum)
        self.calls.append((buffer, checksum, r))
        return r


def _run_rx_repeat(ctx, p):
    g = Gen(p["gen"])
    k = p["count"]
    good = framing.frame(g.n, 0xB0, 0x80, 3, 0x77, [1, 2])
    e = ctx.byte("e")
    ctx.assume(e != 0)
    bad = list(good[:-1]) + [good[-1] ^ e]          # the same damaged frame (free non-zero error in the last check byte) every time
    probe = framing.frame(g.n, 0xB0, 0x80, 9, 0x78, [1, 2, 3])
    with Rig(ctx, g) as rig:
        def on_accept(conn):
            if conn.index < k:
                conn.send(SymBytes(bad) if ctx.symbolic else bytes(bad))
            else:
                conn.send(bytes(probe))
        rig.net.on_accept = on_accept
        rig.spawn(rig.sock.open_socket())
        rig.loop.vt_run(2.5 * k + 10.25)
        got_first = [m for (_, h, m) in rig.received if getattr(m, "unsupported_id", None) != 0x78]
        got_probe = [m for (_, h, m) in rig.received if getattr(m, "unsupported_id", None) == 0x78]
        ctx.observe("conns", len(rig.net.conns))
        ctx.check(got_first == [], "rx.delivered_implies_reference_accepts", detail="a damaged frame was delivered")
        ok = len(rig.net.conns) == k + 1 and all(c.client_closed for c in rig.net.conns[:k]) and len(got_probe) == 1 and rig.net.max_open <= 1
        ctx.check(ok, "rx.reject_resets_and_recovers", detail={"damaged_frames": k, "conns": len(rig.net.conns), "probe": len(got_probe)})
        ctx.check(not rig.task_failures(), "rx.reject_resets_and_recovers", detail="unhandled exception in a socket task")
    for lab in ("rx.validate_span",):
        ctx.reach(lab)


def _run_rx(ctx, p):
    g = Gen(p["gen"])
    n = p["payload"]
    where = p["where"]
    # a frame of an unregistered type (always decodable) with free address/id/payload bytes
    to, frm, pid = ctx.byte("to"), ctx.byte("from"), ctx.byte("pid")
    mtype = 0x77
    data = [ctx.byte(f"d{i}") for i in range(n)]
    good = framing.frame(g.n, to, frm, pid, mtype, data)
    hl = framing.header_len(g.n)
    cs = framing.covered_start(g.n)
    # error pattern: nonzero xor on one region of covered+check bytes
    region = {"addr": range(cs, cs + 3), "type": range(cs + 3, cs + 4), "len": range(cs + 4, cs + 6),
              "data": range(hl, hl + n), "crc": range(hl + n, hl + n + 2)}[where]
    err = {i: ctx.byte(f"e{i}") for i in region}
    ctx.assume(sym_or(*[e != 0 for e in err.values()]))
    if where == "len":
        # keep the announced length no larger than the bytes that follow (the receiver would wait otherwise)
        pass
    bad = [(b ^ err[i]) if i in err else b for i, b in enumerate(good)]
    probe = framing.frame(g.n, 0xB0, 0x80, 9, 0x78, [1, 2, 3])
    spy = _SpyCalc(g.reg.checksum_calculator)
    g.reg.checksum_calculator = spy
    try:
        with Rig(ctx, g) as rig:
            def on_accept(conn):
                if conn.index == 0:
                    if p.get("close_error"):
                        conn.wait_closed_exc = (ConnectionResetError(104, "Connection reset by peer"), TimeoutError(110, "Connection timed out"),
                                                OSError(113, "No route to host"))[ctx.choice("close_exc", 3)]
                    if p.get("after_good"):
                        conn.send(SymBytes(list(good)) if ctx.symbolic else bytes(good))
                    conn.send(SymBytes(bad) if ctx.symbolic else bytes(bad))
                    if p.get("trailing"):
                        conn.send(bytes(probe[:5]))          # the start of a further frame; the rest never arrives on this connection
                elif conn.index == 1:
                    conn.send(bytes(probe))
            rig.net.on_accept = on_accept
            rig.spawn(rig.sock.open_socket())
            rig.loop.vt_run(20.25)
            # what the reference receiver does with the damaged stream
            rl = ((bad[cs + 4] << 8) | bad[cs + 5])
            got_first = [m for (_, h, m) in rig.received if getattr(m, "unsupported_id", None) != 0x78]
            if p.get("after_good"):
                ctx.check(len(got_first) >= 1, "rx.delivered_implies_reference_accepts", detail="the intact frame was not delivered")
                got_first = got_first[1:]
                spy.calls[:1] = []
            got_probe = [m for (_, h, m) in rig.received if getattr(m, "unsupported_id", None) == 0x78]
            ctx.observe("delivered", len(got_first))
            ctx.observe("probe", len(got_probe))
            ctx.observe("conns", len(rig.net.conns))
            ref_len_same = (rl == n)
            ref_crc_ok = bytes_eq(bad[hl + n:hl + n + 2], _ref_check(ctx, bad[cs:hl + n]))
            if where != "len":
                if got_first:
                    # delivered => the reference receiver accepts this frame
                    ctx.check(ref_crc_ok, "rx.delivered_implies_reference_accepts")
                    ctx.check(len(got_first) == 1, "rx.delivered_implies_reference_accepts")
                else:
                    ctx.reach("rx.delivered_implies_reference_accepts")
                    # not delivered: connection was reset, re-established, probe delivered
                    ok = (len(rig.net.conns) >= 2 and rig.net.conns[0].client_closed and len(got_probe) == 1
                          and rig.net.max_open <= 1)
                    ctx.check(ok, "rx.reject_resets_and_recovers", detail={"conns": len(rig.net.conns), "probe": len(got_probe)})
                if spy.calls:
                    buf, chk, _ = spy.calls[0]
                    ctx.check(sym_and(bytes_eq(buf, bad[cs:hl + n]), bytes_eq(chk, bad[hl + n:hl + n + 2])), "rx.validate_span")
                else:
                    ctx.reach("rx.validate_span")
            else:
                # length field damaged: whatever is delivered must be what the reference receiver reads
                ctx.reach("rx.reject_resets_and_recovers")
                ctx.reach("rx.validate_span")
                if got_first:
                    m = got_first[0]
                    k = len(m.raw_data)
                    ref_ok = sym_and(rl == k, bytes_eq(bad[hl + k:hl + k + 2], _ref_check(ctx, bad[cs:hl + k]))) if hl + k + 2 <= len(bad) else False
                    ctx.check(ref_ok, "rx.delivered_implies_reference_accepts")
                else:
                    ctx.reach("rx.delivered_implies_reference_accepts")
            ctx.check(not rig.task_failures(), "rx.reject_resets_and_recovers", detail="unhandled exception in a socket task")
    finally:
        g.reg.checksum_calculator = spy.real


# ------------------------------------------------------------------------- (c) lemmas on the reference CRC

def _bv_crc(data_bytes):
    """Reference CRC over z3 8-bit vectors -> 16-bit vector (same algorithm as ref.crc, on BV16)."""
    crc = z3.BitVecVal(0xFFFF, 16)
    for b in data_bytes:
        crc = crc ^ z3.ZeroExt(8, b)
        for _ in range(8):
            lsb = z3.Extract(0, 0, crc)
            crc = z3.LShR(crc, 1) ^ z3.If(lsb == 1, z3.BitVecVal(0xA001, 16), z3.BitVecVal(0, 16))
    return crc


def _lemma(name, L, err_constraint_builder, timeout_s):
    d = [z3.BitVec(f"d{i}", 8) for i in range(L)]
    e = [z3.BitVec(f"e{i}", 8) for i in range(L + 2)]   # error on data and on the two check bytes
    good = _bv_crc(d)
    chk = [z3.Extract(15, 8, good), z3.Extract(7, 0, good)]          # high byte first
    rd = [a ^ b for a, b in zip(d, e[:L])]
    rchk = [chk[0] ^ e[L], chk[1] ^ e[L + 1]]
    again = _bv_crc(rd)
    accepted = z3.And(z3.Extract(15, 8, again) == rchk[0], z3.Extract(7, 0, again) == rchk[1])
    s = z3.Solver()
    s.set("timeout", int(timeout_s * 1000))
    s.add(err_constraint_builder(e, L))
    s.add(accepted)
    t0 = time.time()
    r = s.check()
    res = {"name": name, "result": str(r), "seconds": round(time.time() - t0, 2), "data_bytes": L}
    if r == z3.sat:
        m = s.model()
        res["assignment"] = {"data": bytes(m.eval(x, True).as_long() for x in d).hex(),
                             "error": bytes(m.eval(x, True).as_long() for x in e).hex()}
        res["detail"] = res["assignment"]
    return res


def _popcount(bits):
    return z3.Sum([z3.ZeroExt(7, b) for b in bits])


def _bits_of(e):
    # wire order of bits inside a byte is irrelevant for 1/2-bit patterns
    out = []
    for x in e:
        for k in range(8):
            out.append(z3.Extract(k, k, x))
    return out


def _one_bit(e, L):
    return _popcount(_bits_of(e)) == 1


def _two_bits(e, L):
    return _popcount(_bits_of(e)) == 2


def _burst16_lsb_first(e, L):
    """Burst of length <= 16 inside the covered bytes, counted in the CRC's own bit order
    (bit 0 of byte 0 first). Check bytes untouched."""
    bits = []
    for x in e[:L]:
        for k in range(8):
            bits.append(z3.Extract(k, k, x))
    n = len(bits)
    start = z3.BitVec("burst_start", 16)
    conds = [z3.ULE(start, n - 1), e[L] == 0, e[L + 1] == 0, z3.Or(*[b == 1 for b in bits])]
    for i, b in enumerate(bits):
        conds.append(z3.Implies(b == 1, z3.And(z3.ULE(start, i), z3.ULT(i, z3.ZeroExt(0, start) + 16))))
    return z3.And(*conds)


def lemmas(tier, jobs):
    L = 8 if tier == "quick" else 16
    to = 300 if tier == "quick" else 1800
    out = []
    import multiprocessing as mp
    tasks = [("ref_crc_detects_every_1bit_error", L, "_one_bit", to),
             ("ref_crc_detects_every_2bit_error", L, "_two_bits", to),
             ("ref_crc_detects_every_burst_le16_lsb_first", L, "_burst16_lsb_first", to)]
    if tier == "thorough":
        tasks += [("ref_crc_detects_every_1bit_error", 8, "_one_bit", to), ("ref_crc_detects_every_2bit_error", 8, "_two_bits", to),
                  ("ref_crc_detects_every_burst_le16_lsb_first", 8, "_burst16_lsb_first", to)]
    with mp.get_context("fork").Pool(min(len(tasks), jobs or 8)) as pool:
        rs = [pool.apply_async(_lemma_task, (t,)) for t in tasks]
        for r in rs:
            out.append(r.get())
    return out


def _lemma_task(t):
    name, L, fn, to = t
    return _lemma(f"{name}[L={L}]", L, globals()[fn], to)
