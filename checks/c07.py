"""C07 — the connection heals itself, never wedges, and stays single.

The whole real socket on a virtual loop against a fault script of bounded depth. Each script
step is chosen by a symbolic index (the solver enumerates the alphabet), the user's send
instant and the connect latency are z3 Reals. After the script the network behaves; within a
generous horizon the client must be connected, receive a probe frame and transmit a probe
command. Monitors: at most one open transport at any time, every abandoned transport closed,
no socket task ended with an unhandled exception.
"""
from __future__ import annotations

from ref import framing
from sx.values import SymBool, sym_and

from . import catalog
from .common import Gen, Rig, socket_mod

PID = "C07"
WALL_BUDGET = {"quick": 900, "thorough": 7200}
SAMPLE_RATE = {"quick": 0.01, "thorough": 0.0005}
CHUNK = 32
STUBS = ["asyncio.open_connection -> FakeNet (script: refuse / accept after latency)", "drain() raises OSError when the script says so",
         "console-side injector applies script steps on the live connection at fixed ticks, up to two per tick",
         "loop -> VLoop (virtual time)"]
OUTSIDE = ["scripts deeper than the stated depth", "more than one user send during the script", "faults raised by write() itself",
           "console bytes after it closed the connection (transport contract)"]
ASSUMPTIONS = ["'unencodable' also covers an encoder that raises another exception type (KeyError from an ability report with an empty support mapping)", "'bounded time' is checked against a horizon of 40 s of virtual time after the last script step (not tied to the 2 s retry constant)",
               "'unencodable' = a message whose size() succeeds and whose encode() raises (AT4 GroupControlMessage(group_number=300))"]

CONNECT_ALPHABET = ("refuse", "accept")
INJECT_ALPHABET = ("nop", "eof", "reset", "unreach", "garbage", "badcrc", "truncated", "werr", "badmsg", "subraise", "undecodable")
# "connsubraise": the next connection-changed notification (connected or disconnected) makes a subscriber raise


def bounds(tier):
    return {"script_depth": {"quick": {"full": 3, "wfault": 4, "rx": 3, "subs": 3, "enc": 3, "halfopen": 3}, "thorough": {"full": 4, "wfault": 6, "rx": 5, "subs": 5, "enc": 5, "halfopen": 4}}[tier],
            "connect_alphabet": CONNECT_ALPHABET, "inject_alphabets": ALPHABETS,
            "user_send_instant": "[0,4] symbolic", "connect_latency": "(0,3] symbolic", "horizon_after_script_s": 40}


ALPHABETS = {
    "full": INJECT_ALPHABET,
    "wfault": ("nop", "werr", "reset", "unreach", "badmsg"),
    "rx": ("nop", "eof", "garbage", "badcrc", "truncated", "undecodable", "subraise"),
    "subs": ("nop", "eof", "reset", "werr", "subraise", "connsubraise"),
    "turns": ("eof", "reset", "unreach", "garbage", "truncated", "werr", "badmsg", "subraise", "connsubraise"),
    "enc": ("nop", "eof", "werr", "badmsg", "badmsg2"),
    # halfopen: the connection goes dead without a word (every later write on it fails, nothing arrives on it any more) and a
    # command that may not be repeated (no retries) is the first thing written to it
    "halfopen": ("nop", "halfopen", "werr", "reset"),
}


def instances(tier):
    out = []
    plan = {"quick": {"full": 3, "wfault": 4, "rx": 3, "subs": 3, "enc": 3, "halfopen": 3}, "thorough": {"full": 4, "wfault": 6, "rx": 5, "subs": 5, "enc": 5, "halfopen": 4}}[tier]
    for g in (4, 5):
        for alph, d in plan.items():
            lo = 1 if alph == "full" else d
            for depth in range(lo, d + 1):
                out.append({"kind": "script", "gen": g, "depth": depth, "alphabet": alph})
        # interleavings inside one instant: the script step is applied j loop turns after a connection was handed to the
        # client (connect completing, subscribers being notified, held messages being flushed, read task starting)
        out.append({"kind": "script", "gen": g, "depth": 2 if tier == "quick" else 3, "alphabet": "turns", "turns": 10})
        # a fixed story with free instants: the flush of a held command fails inside the connection attempt (which leaves a delayed
        # retry behind), the next connection is lost later, and closing a transport takes half a second - timers that fall due
        # and attempts that complete inside the close window. (No request is sent from the connected notification here.)
        for last in ("reset", "eof"):
            story = ["werr"] + ["nop"] * 7 + [last]
            out.append({"kind": "script", "gen": g, "depth": 16, "alphabet": "wfault", "fixed_inject": story, "close_latency": 0.5, "no_greeting": True})
        # a long outage: many refusals in a row; the time to recover once the console accepts again does not grow with them
        out.append({"kind": "outage", "gen": g, "refusals": 30 if tier == "quick" else 120})
        # a console that is slow to accept (up to 20 s): the client waits for it; one connection, none abandoned open
        out.append({"kind": "slow_accept", "gen": g})
    return out


def expect_labels(tier):
    return ["single_connection", "abandoned_closed", "heals.connected", "heals.receiving", "heals.transmitting", "no_task_crash"]


def _unencodable(g):
    if g.n == 4:
        gc = g.m("x2A_group_ctrl")
        return gc.GroupControlMessage(300, gc.GroupPowerControl.TURN_ON, gc.GroupControlMethod.UNCHANGED, None)
    zc = g.m("xC020_zone_ctrl")
    C = g.m("xC0_ctrl_status").ControlStatusMessage
    return C(zc.ZoneControlMessage([zc.ZoneControlData(300, zc.ZonePowerControl.TURN_ON, None)]))


def _unencodable_other(g):
    """size() succeeds, encode() raises an exception that is neither ValueError nor struct.error (an ability report with an
    empty mode-support mapping: KeyError)."""
    ab = g.m("x1FFF11_ac_ability")
    if g.n == 4:
        rec = ab.AcAbility(0, "x", {}, {}, 16, 30, None, 0, 1)
    else:
        rec = ab.AcAbility(0, "x", 0, 1, {}, {}, 16, 30, 17, 31)
    return g.ext.ExtendedMessage(ab.AcAbilityMessage([rec]))


def _outage(ctx, p):
    g = Gen(p["gen"])
    S = socket_mod()
    cat = catalog.catalog(g)
    status_entry, cmd_entry = cat[4], cat[3]
    probe_frame = framing.frame(g.n, 0xB0, 0x80, 8, status_entry[2], status_entry[3](2))
    n_ref = p["refusals"]
    t_back = ctx.real("t_back", 1, 3) + 2.0 * n_ref          # the instant from which the console accepts again (free within a window)
    with Rig(ctx, g, stub_reader=False) as rig:
        refused = {"n": 0}

        def on_connect(net, n):
            if _b(rig.loop.time() < t_back):
                refused["n"] += 1
                return ("refuse",)
            return ("accept", 0)

        rig.net.on_connect = on_connect
        rig.spawn(rig.sock.open_socket())
        rig.loop.vt_run(t_back + 40.0)
        detail = {"refusals": refused["n"]}
        ctx.observe("refusals", refused["n"])
        c = rig.net.current()
        ctx.check(refused["n"] >= n_ref and rig.sock.is_connected and c is not None, "heals.connected", detail=detail)
        if c is not None:
            c.send(bytes(probe_frame))

        async def user_send():
            try:
                await rig.sock.send(cmd_entry[1](6), S.RetryPolicy(0, 10.0))
            except (S.QueueOverflowError, S.NotOpenError):
                pass

        rig.spawn(user_send())
        rig.loop.vt_run(t_back + 45.0)
        ctx.check(len(rig.received) == 1, "heals.receiving", detail=detail)
        ctx.check(sum(len(x.writes) for x in rig.net.conns) > 0, "heals.transmitting", detail=detail)
        ctx.check(rig.net.max_open <= 1 and not rig.task_failures(), "single_connection", detail=detail)
    for lab in ("abandoned_closed", "no_task_crash"):
        ctx.reach(lab)


def _b(x):
    return bool(x) if isinstance(x, SymBool) else x


def _slow_accept(ctx, p):
    g = Gen(p["gen"])
    S = socket_mod()
    cat = catalog.catalog(g)
    status_entry, cmd_entry = cat[4], cat[3]
    probe_frame = framing.frame(g.n, 0xB0, 0x80, 8, status_entry[2], status_entry[3](2))
    lat = ctx.real("lat", 0, 20, lo_strict=True)
    with Rig(ctx, g, stub_reader=False) as rig:
        rig.net.on_connect = lambda net, n: ("accept", lat)
        rig.spawn(rig.sock.open_socket())
        rig.loop.vt_run(70.0)
        c = rig.net.current()
        open_now = [x.index for x in rig.net.conns if not x.client_closed]
        detail = {"conns": len(rig.net.conns), "still_open": open_now, "max_open": rig.net.max_open}
        ctx.observe("conns", len(rig.net.conns))
        ctx.check(rig.sock.is_connected and c is not None, "heals.connected", detail=detail)
        ctx.check(rig.net.max_open <= 1, "single_connection", detail=detail)
        ctx.check(len(open_now) <= 1 and (not open_now or open_now[0] == rig.net.conns[-1].index), "abandoned_closed", detail=detail)
        if c is not None:
            c.send(bytes(probe_frame))

        async def user_send():
            try:
                await rig.sock.send(cmd_entry[1](6), S.RetryPolicy(0, 10.0))
            except (S.QueueOverflowError, S.NotOpenError):
                pass

        rig.spawn(user_send())
        rig.loop.vt_run(75.0)
        ctx.check(len(rig.received) == 1, "heals.receiving", detail=detail)
        ctx.check(sum(len(x.writes) for x in rig.net.conns) > 0, "heals.transmitting", detail=detail)
        ctx.check(not rig.task_failures(), "no_task_crash", detail=detail)


def run(ctx, p):
    if p["kind"] == "slow_accept":
        return _slow_accept(ctx, p)
    if p["kind"] == "outage":
        return _outage(ctx, p)
    g = Gen(p["gen"])
    S = socket_mod()
    cat = catalog.catalog(g)
    depth = p["depth"]
    status_entry = cat[4]        # AcStatusMessage
    cmd_entry = cat[3]           # AcControlMessage
    good_frame = framing.frame(g.n, 0xB0, 0x80, 7, status_entry[2], status_entry[3](1))
    probe_frame = framing.frame(g.n, 0xB0, 0x80, 8, status_entry[2], status_entry[3](2))
    bad_crc = list(good_frame)
    bad_crc[-1] ^= 0x01
    # a frame with valid framing and CRC whose payload the decoder rejects (undefined power state / mode codes)
    und_payload = list(status_entry[3](1))
    und_payload[1] = 0xFF
    undecodable = framing.frame(g.n, 0xB0, 0x80, 9, status_entry[2], und_payload) if g.n == 4 else \
        framing.frame(g.n, 0xB0, 0x80, 9, 0xC0, framing.c0(0x23, [], 10, 1, [0xF0, 0xFF] + [0] * 8))
    tsend = ctx.real("tsend", 0, 4)
    lat = ctx.real("lat", 0, 3, lo_strict=True)
    state = {"step": 0, "trace": [], "raise_next": False, "conn_raise_next": False}

    fixed = list(p["fixed_inject"]) if p.get("fixed_inject") else None
    lat_later = ctx.real("lat_later", 0, 1, lo_strict=True) if fixed is not None else lat     # later connections have a latency of their own

    def choose(alphabet):
        if fixed is not None:
            # a fixed story (no branching on actions; the instants of the send and the connection latencies stay free)
            a = "accept" if alphabet is CONNECT_ALPHABET else (fixed.pop(0) if fixed else "nop")
            state["step"] += 1
            state["trace"].append(a)
            return a
        i = ctx.choice(f"s{state['step']}_{len(state['trace'])}", len(alphabet))
        state["step"] += 1
        state["trace"].append(alphabet[i])
        return alphabet[i]

    with Rig(ctx, g, stub_reader=False) as rig:
        if p.get("close_latency"):
            rig.net.close_latency = p["close_latency"]

        def on_connect(net, n):
            if state["step"] < depth:
                if choose(CONNECT_ALPHABET) == "refuse":
                    return ("refuse",)
                return ("accept", lat if n == 0 else lat_later)
            return ("accept", lat if n == 0 else lat_later)      # the network behaves again: accepts, with the same (symbolic) latency

        fail_drain = {"on": False}

        dead = set()

        def on_drain(conn, n):
            if conn.index in dead:
                return ConnectionResetError("write on a half-open connection")
            if fail_drain["on"]:
                fail_drain["on"] = False
                return ConnectionResetError("write fault")
            return None

        rig.net.on_connect = on_connect
        rig.net.on_drain = on_drain

        async def raising_subscriber(header, message):
            if state["raise_next"]:
                state["raise_next"] = False
                raise RuntimeError("subscriber failure")

        rig.sock.subscribe_on_message_received(raising_subscriber)

        async def greeting_subscriber(*, connected):
            # like the API objects: a request is sent from inside the 'connected' notification
            if connected:
                try:
                    await rig.sock.send(cat[5][1](0), S.RETRY_CONNECTED)
                except (S.QueueOverflowError, S.NotOpenError):
                    pass

        if not p.get("no_greeting"):
            rig.sock.subscribe_on_connection_changed(greeting_subscriber)

        async def raising_conn_subscriber(*, connected):
            if state["conn_raise_next"]:
                state["conn_raise_next"] = False
                raise RuntimeError("connection subscriber failure")

        rig.sock.subscribe_on_connection_changed(raising_conn_subscriber)

        async def user_send(msg, policy):
            try:
                await rig.sock.send(msg, policy)
            except (S.QueueOverflowError, S.NotOpenError):
                pass

        def inject(once=False):
            if state["step"] >= depth:
                return
            for _ in range(1 if once else 2):
                if state["step"] >= depth:
                    break
                c = rig.net.current()
                live = c is not None and not c.peer_closed
                a = choose(ALPHABETS[p.get("alphabet", "full")])
                if a == "badmsg":
                    rig.spawn(user_send(_unencodable(g), S.RetryPolicy(1, 5.0)))
                elif a == "badmsg2":
                    rig.spawn(user_send(_unencodable_other(g), S.RetryPolicy(1, 5.0)))
                elif a == "werr":
                    fail_drain["on"] = True
                elif a == "halfopen":
                    if live:
                        dead.add(c.index)
                        rig.spawn(user_send(cmd_entry[1](7), S.RetryPolicy(0, 5.0)))
                elif a == "connsubraise":
                    state["conn_raise_next"] = True
                elif not live:
                    continue           # console-side actions need a live connection (transport contract)
                elif a == "eof":
                    c.eof()
                elif a == "reset":
                    c.reset()
                elif a == "unreach":
                    # the link dies with an OSError that is not a ConnectionError; closing the transport reports it again
                    c.wait_closed_exc = OSError(113, "No route to host")
                    c.reset(OSError(113, "No route to host"))
                elif a == "garbage":
                    c.send(bytes([0x00, 0x01, 0x02, 0x03, 0x55, 0x05, 0x06, 0x07, 0x08, 0x09, 0xAA, 0x0B] * 2))
                elif a == "badcrc":
                    c.send(bytes(bad_crc))
                elif a == "truncated":
                    c.send(bytes(good_frame[: len(good_frame) // 2]))
                    c.eof()
                elif a == "subraise":
                    state["raise_next"] = True
                    c.send(bytes(good_frame))
                elif a == "undecodable":
                    c.send(bytes(undecodable))
            if not once:
                rig.loop.call_later(0.7, inject)

        if p.get("turns"):
            def hop(n):
                if n <= 0:
                    inject(True)
                else:
                    rig.loop.call_soon(hop, n - 1)

            def on_accept(conn):
                if state["step"] < depth:
                    j = ctx.choice(f"turn{state['step']}", p["turns"])
                    state["trace"].append(f"+{j}turns")
                    hop(j)

            rig.net.on_accept = on_accept

        rig.spawn(rig.sock.open_socket())
        rig.loop.vt_call_at(tsend, lambda: rig.spawn(user_send(cmd_entry[1](5), S.RetryPolicy(1, 3.0))))
        if not p.get("turns"):
            rig.loop.call_later(0.3, inject)
        t_script_end = 0.3 + 0.7 * depth + 8.0
        rig.loop.vt_run(t_script_end)
        state["step"] = max(state["step"], depth)     # the network behaves from now on
        fail_drain["on"] = False
        state["conn_raise_next"] = False
        rig.loop.vt_run(t_script_end + 20.0)
        ctx.observe("trace", tuple(state["trace"]))
        detail = {"trace": state["trace"]}
        # ---- healed? ----------------------------------------------------------------
        c = rig.net.current()
        connected = rig.sock.is_connected and c is not None and not c.peer_closed
        ctx.check(connected, "heals.connected", detail=detail)
        n_before = len([m for m in rig.received])
        w_before = sum(len(x.writes) for x in rig.net.conns)
        if c is not None and not c.peer_closed and c.index not in dead:
            c.send(bytes(probe_frame))
        rig.spawn(user_send(cmd_entry[1](6), S.RetryPolicy(0, 10.0)))
        rig.loop.vt_run(t_script_end + 40.0)
        delivered = len(rig.received) == n_before + 1
        ctx.check(delivered, "heals.receiving", detail=detail)
        written = b"".join(bytes(d) for x in rig.net.conns for _, d in x.writes)
        probe_cmd = bytes(framing.frame(g.n, 0x80, 0xB0, 0, cmd_entry[2], cmd_entry[3](6))[framing.header_len(g.n):-2])
        ctx.check(probe_cmd in written and sum(len(x.writes) for x in rig.net.conns) > w_before, "heals.transmitting", detail=detail)
        # ---- monitors ------------------------------------------------------------------
        known = []
        if p.get("fixed_inject") and p.get("close_latency"):
            # KF-C07-4 (open): a send inside the close window of the connection lost at 3.1 s starts a second, overlapping tear-down
            t_loss = 0.3 + 0.7 * 4
            known = [("KF-C07-4", sym_and(tsend >= t_loss, tsend <= t_loss + p["close_latency"]))]
        ctx.check(rig.net.max_open <= 1, "single_connection", known=known, detail=dict(detail, max_open=rig.net.max_open))
        open_now = [x.index for x in rig.net.conns if not x.client_closed]
        ctx.check(len(open_now) <= 1 and (not open_now or open_now[0] == rig.net.conns[-1].index), "abandoned_closed", known=known,
                  detail=dict(detail, still_open=open_now))
        ctx.check(not rig.task_failures(), "no_task_crash",
                  detail=dict(detail, errors=[str(e.get("exception")) for e in rig.task_failures()][:3]))
