"""C08 — heartbeat detects a dead link, and only a dead link.

(unit)  the real HeartbeatManager on the real socket with a symbolic interval/timeout configuration;
(api)   the real AirTouch4/5 objects after the real handshake, with the library's own 300 s / 330 s.
The console answers each heartbeat after a solver-chosen delay or not at all (from a solver-chosen
heartbeat on). Expected reset instants are computed by the reference rule "deadline = (start of
monitoring | last response | previous reset) + timeout" on the same symbolic instants.
"""
from __future__ import annotations

import importlib

from sx.values import SymBool, sym_and

from .common import ApiRig, Gen, Rig, socket_mod
from .console import Console, Installation

PID = "C08"
WALL_BUDGET = {"quick": 900, "thorough": 7200}
SAMPLE_RATE = {"quick": 0.02, "thorough": 0.002}
CHUNK = 32
STUBS = ["asyncio.open_connection -> FakeNet (accepts at once)", "scripted reference console answering version requests after symbolic delays / never",
         "loop -> VLoop (virtual time)"]
OUTSIDE = ["more than the stated number of heartbeat periods", "answers arriving at exactly a deadline or exactly together with a request, a deadline falling exactly on a request instant (ties)",
           "link outages other than the heartbeat's own resets (C07/C14)"]
ASSUMPTIONS = ["monitoring starts when the handshake completes (heartbeat start)"]


def bounds(tier):
    return {"periods": 2 if tier == "quick" else 4, "api_interval_timeout": "300/330 (library constants)", "unit_interval": "[2,6] symbolic",
            "unit_margin": "(0,3] symbolic", "answer_delay": "[0, 1.5*timeout] symbolic or never"}


def instances(tier):
    out = []
    n = 2 if tier == "quick" else 4
    for g in (4, 5):
        for silent_from in range(0, n + 2):
            out.append({"kind": "api", "gen": g, "periods": n, "silent_from": silent_from})
        # the silent link is half-open: closing it reports an OSError that is no ConnectionError (ETIMEDOUT / EHOSTUNREACH)
        out.append({"kind": "api", "gen": g, "periods": n, "silent_from": 0, "close_exc": True})
        out.append({"kind": "api", "gen": g, "periods": n, "silent_from": 1, "close_exc": True})
        out.append({"kind": "unit", "gen": g, "periods": 2, "silent_from": 0})
        out.append({"kind": "unit", "gen": g, "periods": 2, "silent_from": 1})
        out.append({"kind": "unit", "gen": g, "periods": 2 if tier == "quick" else 3, "silent_from": 9})
        out.append({"kind": "matcher", "gen": g})
        out.append({"kind": "outage", "gen": g})
        out.append({"kind": "outage", "gen": g, "held": 10})        # ten commands are held for the dead link when the heartbeat falls due
        out.append({"kind": "second_session", "gen": g})
    # an AirTouch 5 without zones (the console echoes the zone requests): the heartbeat runs there as well
    out.append({"kind": "api", "gen": 5, "periods": n, "silent_from": 0, "zero_zones": True})
    out.append({"kind": "api", "gen": 5, "periods": n, "silent_from": n + 1, "zero_zones": True})
    return out


def expect_labels(tier):
    return ["requests_every_interval", "reset_exactly_at_deadline", "no_reset_when_answered", "matcher"]


def _b(x):
    return bool(x) if isinstance(x, SymBool) else x


def _reference_resets(start, timeout, responses, horizon):
    """Reset instants per the property: deadline = (start | last response | previous reset) + timeout."""
    resets = []
    deadline = start + timeout
    pending = sorted_sym(responses)
    i = 0
    guard = 0
    while True:
        guard += 1
        if guard > 50:
            break
        # next event: response i or the deadline
        if i < len(pending) and _b(pending[i] < deadline):
            deadline = pending[i] + timeout
            i += 1
            continue
        if _b(deadline > horizon):
            break
        resets.append(deadline)
        deadline = deadline + timeout
    return resets


def sorted_sym(xs):
    """Sort possibly symbolic instants (forks on comparisons)."""
    out = []
    for x in xs:
        j = 0
        while j < len(out) and _b(out[j] <= x):
            j += 1
        out.insert(j, x)
    return out


def run(ctx, p):
    if p["kind"] == "matcher":
        return _matcher(ctx, p)
    if p["kind"] == "outage":
        return _outage(ctx, p)
    if p["kind"] == "second_session":
        return _second_session(ctx, p)
    g = Gen(p["gen"])
    api_level = p["kind"] == "api"
    n = p["periods"]
    if api_level:
        interval, timeout = 300.0, 330.0
    else:
        interval = ctx.real("interval", 2, 6)
        timeout = interval + ctx.real("margin", 0, 3, lo_strict=True)
    horizon = interval * n + timeout * 0 + (interval * 0.5 if not api_level else 150.0)
    horizon = interval * n + (150.0 if api_level else 1.0)
    # answer delays per heartbeat request (index 0 = the one sent when monitoring starts)
    delays = []
    for k in range(n + 1):
        if k >= p["silent_from"]:
            delays.append(None)
        else:
            delays.append(ctx.real(f"d{k}", 0, 45.0 if api_level else 4.5))
    inst = Installation.simple(g.n, n_acs=1, zones_per_ac=1)
    if p.get("zero_zones"):
        from ref import at5 as r5
        inst = Installation(5)
        inst.acs.append({"number": 0, "name": "AC0", "start": 0, "count": 0, "mode_bits": 0x1F, "fan_bits": 0xFF, "limits": (16, 30, 17, 31)})
        inst.ac_status[0] = r5.build_ac_status(0, 1, 4, 2, 120, 0, 0, 0, 0, 740, 0)
        inst.timers[0] = (1, 0, 0, 1, 0, 0)
        inst.zero_zone_echo = True
    rig = ApiRig(ctx, g, inst) if api_level else Rig(ctx, g)
    with rig:
        con = rig.console if api_level else Console(rig, inst)
        if p.get("close_exc"):
            prev_accept = rig.net.on_accept

            def on_accept(conn):
                conn.wait_closed_exc = (TimeoutError(110, "Connection timed out"), OSError(113, "No route to host"))[conn.index % 2]
                if prev_accept is not None:
                    prev_accept(conn)

            rig.net.on_accept = on_accept
        hb_requests = []
        responses = []
        state = {"monitoring": False}

        def on_request(conn, kind, fr):
            if kind != "version" or not state["monitoring"]:
                return
            k = len(hb_requests)
            hb_requests.append(rig.loop.time())
            d = delays[k] if k < len(delays) else None
            if d is not None:
                def answer(conn=conn, fr=fr):
                    c = rig.net.current()
                    if c is not None and not c.peer_closed:
                        responses.append(rig.loop.time())
                        c.send(bytes(con.version_frame(fr["pid"])))
                rig.loop.call_later(d, answer)

        con.on_request = on_request
        if api_level:
            rig.start()
            # the handshake's own version request is answered by the console's automatic answers
            orig = con._answer

            def answer_filter(conn, kind, fr):
                if kind == "version" and state["monitoring"]:
                    return           # heartbeat requests are answered by the script above
                orig(conn, kind, fr)

            con._answer = answer_filter
            # monitoring starts when the handshake completes; the first heartbeat request follows in the same instant
            def arm():
                state["monitoring"] = True
            # handshake completes at t=0 (zero latency); arm just before the last handshake answer is processed
            orig_zone = con.answer_frames

            def answer_frames(kind, fr):
                if kind == "zone_status":
                    arm()
                return orig_zone(kind, fr)

            con.answer_frames = answer_frames
            start = 0
        else:
            S = socket_mod()
            hbm = importlib.import_module("pyairtouch.comms.heartbeat")
            E = g.ext.ExtendedMessage
            cv = g.m("x1FFF30_console_ver")

            def match(m):
                return isinstance(m, E) and m.sub_message.message_id == cv.MESSAGE_ID

            mgr = hbm.HeartbeatManager(rig.loop, rig.sock, hbm.HeartbeatConfig(message=E(cv.ConsoleVersionRequest()), response_match=match,
                                                                              interval=interval, timeout=timeout))
            con.auto = False

            async def go():
                import asyncio
                await rig.sock.open_socket()
                await asyncio.sleep(0.5)
                state["monitoring"] = True
                await mgr.start()

            rig.spawn(go())
            start = 0.5
        # ties are outside the claim
        for k, d in enumerate(delays):
            if d is not None:
                ctx.assume(sym_and(*[start + interval * k + d != start + interval * m for m in range(n + 2)]))
        rig.loop.vt_run(horizon)
        detail = {"silent_from": p["silent_from"]}
        closes = [t for (ev, idx, t) in rig.net.events if ev == "close"]
        ctx.observe("requests", len(hb_requests))
        ctx.observe("resets", len(closes))
        # expected responses: request k at start + k*interval answered d_k later (if the link is up then)
        exp_resp = [start + interval * k + delays[k] for k in range(len(delays)) if delays[k] is not None]
        exp_resets = _reference_resets(start, timeout, exp_resp, horizon)
        for r in exp_resp:
            for e in exp_resets:
                ctx.assume(r != e)
        for e in exp_resets:
            # a deadline falling exactly on a request instant is a tie (the request is or is not sent depending on
            # the order of the two timers): outside the claim
            ctx.assume(sym_and(*[e != start + interval * m for m in range(n + 2)]))
        ctx.check(len(closes) == len(exp_resets), "reset_exactly_at_deadline", detail=dict(detail, resets=len(closes), expected=len(exp_resets)))
        ctx.check(sym_and(*[a == b for a, b in zip(closes, exp_resets)]), "reset_exactly_at_deadline", detail=detail)
        if p["silent_from"] > n:
            within = sym_and(*[d < timeout - interval for d in delays if d is not None])
            if _b(within):
                ctx.check(len(closes) == 0, "no_reset_when_answered", detail=detail)
            else:
                ctx.reach("no_reset_when_answered")
        else:
            ctx.reach("no_reset_when_answered")
        # requests every interval while connected (a reset at exactly a request instant is a tie: excluded above by assumption on responses only)
        exp_req = [start + interval * k for k in range(n + 1)]
        ok_n = len(hb_requests) == len(exp_req)
        ctx.check(ok_n, "requests_every_interval", detail=dict(detail, got=len(hb_requests), expected=len(exp_req)))
        ctx.check(sym_and(*[a == b for a, b in zip(hb_requests, exp_req)]), "requests_every_interval", detail=detail)
        ctx.check(not rig.task_failures(), "requests_every_interval", detail="unhandled exception")
        ctx.reach("matcher")


def _matcher(ctx, p):
    """The API objects' response matcher: exactly the extended messages that carry the console-version id."""
    g = Gen(p["gen"])
    inst = Installation.simple(g.n, n_acs=1, zones_per_ac=1)
    with ApiRig(ctx, g, inst) as rig:
        con = rig.console
        rig.start()
        rig.run(1.0)
        ctx.check(rig.init_result is True, "matcher", detail="handshake failed")
        # a console that answers every heartbeat only with *other* frames is a dead link for the heartbeat
        orig = con._answer

        def only_other(conn, kind, fr):
            if kind == "version":
                conn.send(bytes(con.ac_status_frame(pid=fr["pid"])))
                conn.send(bytes(con.error_frame(0, None, pid=fr["pid"])))
                return
            orig(conn, kind, fr)

        con._answer = only_other
        rig.run(700.0)
        closes = [t for (ev, idx, t) in rig.net.events if ev == "close"]
        ctx.check(len(closes) >= 1 and closes[0] == 330, "matcher", detail={"closes": [str(c) for c in closes]})
        for lab in ("requests_every_interval", "reset_exactly_at_deadline", "no_reset_when_answered"):
            ctx.reach(lab)


def _outage(ctx, p):
    """An outage (not caused by the heartbeat) spans a heartbeat deadline; after the link is back one heartbeat is
    answered, then the console falls silent: the reset must come exactly 330 s after that last response."""
    g = Gen(p["gen"])
    inst = Installation.simple(g.n, n_acs=1, zones_per_ac=1)
    t_drop = 100.0         # the outage window is fixed (every 2 s retry inside a symbolic window would fork); it spans the 330 s deadline
    t_back = 400.5
    d = ctx.real("d", 0, 20)
    with ApiRig(ctx, g, inst) as rig:
        con = rig.console
        state = {"hb": 0, "answered_at": None}
        rig.net.on_connect = lambda net, n: ("accept", 0) if (n == 0 or bool(rig.loop.time() >= t_back)) else ("refuse",)
        rig.start()
        rig.run(1.0)
        ctx.check(rig.init_result is True, "reset_exactly_at_deadline", detail="handshake failed")
        orig = con._answer

        def answer(conn, kind, fr):
            if kind == "version":
                # only the heartbeat sent at 600 s is answered (after d); every other one is ignored
                if bool(rig.loop.time() == 600) and state["answered_at"] is None:
                    def late():
                        c = rig.net.current()
                        if c is not None and not c.peer_closed:
                            state["answered_at"] = rig.loop.time()
                            c.send(bytes(con.version_frame(fr["pid"])))
                    rig.loop.call_later(d, late)
                return
            orig(conn, kind, fr)

        con._answer = answer
        rig.loop.vt_call_at(t_drop, lambda: rig.net.current().reset() if rig.net.current() else None)
        if p.get("held"):
            async def cmds():
                for i in range(p["held"]):
                    try:
                        await rig.ac(0).set_target_temperature(20 + i % 5)
                    except Exception:  # noqa: BLE001
                        pass
            rig.loop.vt_call_at(295.0, lambda: rig.spawn(cmds()))
        rig.run(1000.0)
        closes = [t for (ev, idx, t) in rig.net.events if ev == "close"]
        # closes: the outage itself (at t_drop), then exactly one heartbeat reset at 600 + d + 330
        exp = 600 + d + 330
        hb_resets = [t for t in closes if bool(t > t_back)]
        ctx.observe("resets_after_outage", len(hb_resets))
        ctx.check(state["answered_at"] is not None, "reset_exactly_at_deadline", detail="the heartbeat at 600 s was never sent/answered")
        ctx.check(len(hb_resets) == 1 and bool(hb_resets[0] == exp), "reset_exactly_at_deadline",
                  detail={"resets": [str(t) for t in hb_resets], "expected": str(exp)})
        for lab in ("requests_every_interval", "no_reset_when_answered", "matcher"):
            ctx.reach(lab)


def _second_session(ctx, p):
    """init -> shutdown -> init on the same object: in the second session every heartbeat is answered promptly,
    so the heartbeat must never reset the link, and requests keep their 300 s rhythm."""
    g = Gen(p["gen"])
    inst = Installation.simple(g.n, n_acs=1, zones_per_ac=1)
    t_down = ctx.real("t_down", 5, 50)
    gap = ctx.real("gap", 1, 20)
    d = ctx.real("d", 0, 25)
    with ApiRig(ctx, g, inst) as rig:
        con = rig.console
        con.answer_delay = 0
        rig.start()
        rig.run(1.0)
        ctx.check(rig.init_result is True, "no_reset_when_answered", detail="first handshake failed")

        async def down():
            await rig.at.shutdown()

        rig.loop.vt_call_at(t_down, lambda: rig.spawn(down()))
        t2 = t_down + gap
        rig.init_result = None
        rig.start(at=t2)
        rig.run(t2 + 0.5)
        ctx.check(rig.init_result is True, "no_reset_when_answered", detail="second handshake failed")
        n_close = len([1 for (ev, idx, t) in rig.net.events if ev == "close"])
        n_req = len(con.requests)
        # from now on heartbeat answers take d seconds (< 30 s)
        con.answer_delay = d
        rig.run(t2 + 700.0)
        closes = [t for (ev, idx, t) in rig.net.events if ev == "close"][n_close:]
        hb = [t for t, k, _ in con.requests[n_req:] if k == "version"]
        ctx.observe("resets_in_second_session", len(closes))
        ctx.check(closes == [], "no_reset_when_answered", detail={"resets": [str(t) for t in closes]})
        ctx.check(len(hb) == 2 and bool(hb[0] == t2 + 300) and bool(hb[1] == t2 + 600), "requests_every_interval", detail={"requests": [str(t) for t in hb]})
        for lab in ("reset_exactly_at_deadline", "matcher"):
            ctx.reach(lab)
