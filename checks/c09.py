"""C09 — initialisation completes against any answering console, else fails cleanly.

Real pyairtouch.connect()+init() of both generations, real socket, on a virtual loop against the
scripted reference console. Symbolic: which step the console goes silent at (or none), the slot /
kind / position of an interleaved extra frame, the connect delay (around the 5 s limit), the
console's answer delay, and (AT4) the group bitmap of the ability record.
"""
from __future__ import annotations

from ref import at4 as r4
from ref import at5 as r5
from ref import framing
from sx.values import SymBool, sym_and, sym_not, sym_or

from .common import ApiRig, Gen
from .console import STEPS, Installation

PID = "C09"
WALL_BUDGET = {"quick": 900, "thorough": 7200}
SAMPLE_RATE = {"quick": 0.02, "thorough": 0.002}
CHUNK = 32
STUBS = ["asyncio.open_connection -> FakeNet (accepts after a symbolic delay)", "scripted console built from the reference layouts (never the repo's encoders)",
         "frames arrive whole (segmentation is C13)", "loop -> VLoop (virtual time)"]
OUTSIDE = ["more than 2 (quick) / 4 (thorough) ACs, more than one (quick) / two (thorough) interleaved extra frames",
           "AT4 installations without any group (the protocol's empty names answer is byte-identical to the request)",
           "ability records whose bitmap/start/count name groups the names answer did not list (inconsistent console)",
           "a final answer arriving at exactly the 5 s limit (tie)"]
ASSUMPTIONS = ["foreign-addressed extra frames are another client's command or request (addressed to the console, from 0xB1), not a forged answer of the kind currently awaited"]

EXTRA_KINDS = ("unsolicited_status", "stale_duplicate", "unknown_type", "foreign_command", "foreign_request", "partial_status", "foreign_answer")


def bounds(tier):
    return {"acs": [1, 2] if tier == "quick" else [1, 2, 3, 4], "zones_per_ac": [0, 1, 2, 3], "extras": 1 if tier == "quick" else 2,
            "silent_step": "none or 0..5 (symbolic choice)", "connect_delay": "[0,7] symbolic", "answer_delay": "0 or [0,1.2] symbolic"}


def instances(tier):
    out = []
    acs = [1, 2] if tier == "quick" else [1, 2, 3, 4]
    for g in (4, 5):
        for n in acs:
            for zp in ([1, 2] if tier == "quick" else [1, 2, 3]):
                variants = ["new", "old"] if g == 4 else ["std"]
                for v in variants:
                    out.append({"kind": "silent", "gen": g, "acs": n, "zpa": zp, "variant": v})
                    out.append({"kind": "extra", "gen": g, "acs": n, "zpa": zp, "variant": v})
        out.append({"kind": "timing", "gen": g, "acs": 1, "zpa": 2, "variant": "new" if g == 4 else "std"})
        if tier == "thorough":
            out.append({"kind": "extra", "gen": g, "acs": 2, "zpa": 2, "variant": "new" if g == 4 else "std", "two": True})
    out.append({"kind": "bitmap", "gen": 4, "acs": 2, "zpa": 2, "variant": "new"})
    for g in (4, 5):
        for v in (["new", "old"] if g == 4 else ["std"]):
            out.append({"kind": "names", "gen": g, "acs": 1 if v == "old" else 2, "zpa": 2, "variant": v})
    for g in (4, 5):
        for how in ("twice", "slow_connect", "after_silence", "after_shutdown"):
            out.append({"kind": "init_again", "gen": g, "how": how})
    for g in (4, 5):
        out.append({"kind": "counter", "gen": g})      # the process-wide packet counter stands anywhere (0..255) when init() starts
    out.append({"kind": "zero_zones", "gen": 5, "acs": 1})
    out.append({"kind": "zero_zones", "gen": 5, "acs": 2})
    out.append({"kind": "uneven", "gen": 5})
    out.append({"kind": "gap", "gen": 5})
    out.append({"kind": "uneven", "gen": 4})
    return out


def expect_labels(tier):
    return ["order.one_at_a_time", "success.returns_true", "success.model", "silent.returns_false_at_5s", "no_exception"]


def _install(p):
    inst = Installation.simple(p["gen"], n_acs=p["acs"], zones_per_ac=p.get("zpa", 2), old_ability=(p.get("variant") == "old"))
    return inst


def _expected_partition(inst):
    """AC number -> sorted zone numbers, per the protocol documents."""
    out = {}
    for a in inst.acs:
        if inst.gen == 4:
            gb = a.get("group_bits")
            if gb is not None:
                out[a["number"]] = sorted(n for n in inst.zones if (gb >> n) & 1)
            elif len(inst.acs) == 1:
                out[a["number"]] = sorted(inst.zones)           # one AC: all groups belong to it
            else:
                out[a["number"]] = list(range(a["start"], a["start"] + a["count"]))
        else:
            out[a["number"]] = list(range(a["start"], a["start"] + a["count"]))
    return out


def _check_model(ctx, rig, inst, detail):
    at = rig.at
    got = {a.ac_id: sorted(z.zone_id for z in a.zones) for a in at.air_conditioners}
    exp = _expected_partition(inst)
    from sx.values import Utf8Str

    def nm(x):
        return x if isinstance(x, str) else Utf8Str(list(x))
    names_ok = sym_and(*[z.name == nm(inst.zones[z.zone_id]) for a in at.air_conditioners for z in a.zones])
    ac_names_ok = all(a.name == [x for x in inst.acs if x["number"] == a.ac_id][0]["name"] for a in at.air_conditioners)
    ctx.check(got == exp and names_ok and ac_names_ok, "success.model", detail=dict(detail, got=got, expected=exp))
    # every AC shows what the console reported about it during the handshake (power state and set-point of its status record)
    T = r4 if inst.gen == 4 else r5
    for a in at.air_conditioners:
        rec = inst.ac_status.get(a.ac_id)
        if rec is None or not all(isinstance(b, int) for b in rec):
            continue
        e = T.ac_status_record(rec)
        want_power = {0: "OFF", 1: "ON"}.get(e["power_code"]) if inst.gen == 4 else T.AC_POWER_STATE.get(e["power_code"])
        want_sp = e["set_point"] if inst.gen == 4 else (e["set_point_raw"] + 100) / 10.0
        ok = a.power_state.name == want_power and a.target_temperature == want_sp
        ctx.check(ok, "success.model", detail=dict(detail, ac=a.ac_id, power=a.power_state.name, target=str(a.target_temperature), reported=(want_power, want_sp)))


def _extra_frame(g, kind, inst, console, step):
    if kind == "unsolicited_status":
        return console.ac_status_frame(pid=0x55)
    if kind == "foreign_answer":
        # the console's answer to ANOTHER client (addressed to 0xB7) of the kind awaited at this step, describing less than
        # the installation (that client asked about the last AC / zone only)
        import copy
        keep = console.inst
        alt = copy.copy(keep)
        lz = max(keep.zones) if keep.zones else None
        la = keep.acs[-1]["number"]
        alt.zones = {lz: keep.zones[lz]} if lz is not None else {}
        alt.acs = [a for a in keep.acs if a["number"] == la]
        alt.ac_status = {la: keep.ac_status[la]}
        alt.zone_status = {lz: keep.zone_status[lz]} if lz is not None else {}
        alt.timers = {la: keep.timers[la]}
        console.inst = alt
        try:
            raws = console.answer_frames(step, {"pid": 0x5C, "data": [0xFF, 0x10, 0]})
        finally:
            console.inst = keep
        if not raws:
            return framing.frame(g, 0xB7, 0x80, 0x5C, 0x77, [1])
        raw = [int(b) for b in raws[0]]
        hl = framing.header_len(g)
        cs = framing.covered_start(g)
        return framing.frame(g, 0xB7, raw[cs + 1], raw[cs + 2], raw[cs + 3], raw[hl:-2])
    if kind == "partial_status":
        # an unsolicited report about the last AC only (the console sends one whenever something changes), with the values the
        # console also gives in its full answer
        last = max(console.inst.ac_status)
        return console.ac_status_frame(pid=0x5B, only=[last])
    if kind == "unknown_type":
        return framing.frame(g, 0xB0, 0x80, 0x56, 0x77, [1, 2, 3, 4, 5])
    if kind == "foreign_command":
        if g == 4:
            return framing.frame(4, 0x80, 0xB1, 0x57, 0x2A, [1, 0x03, 0, 0])
        return framing.frame(5, 0x80, 0xB1, 0x57, 0xC0, framing.c0(0x20, [], 4, 1, [1, 0x03, 0xFF, 0]))
    if kind == "foreign_request":
        # another client's request of the kind currently awaited (addressed to the console, from 0xB1): must be ignored
        ext = {"version": 0xFF30, "names": 0xFF12 if g == 4 else 0xFF13, "ability": 0xFF11}
        if step in ext:
            return framing.frame(g, 0x90, 0xB1, 0x59, 0x1F, framing.ext(ext[step], []))
        if g == 4:
            return framing.frame(4, 0x80, 0xB1, 0x59, {"ac_status": 0x2D, "timer_status": 0x37, "zone_status": 0x2B}[step], [])
        return framing.frame(5, 0x80, 0xB1, 0x59, 0xC0, framing.c0({"ac_status": 0x23, "timer_status": 0x33, "zone_status": 0x21}[step], [], 0, 0, []))
    return None   # stale_duplicate is resolved at answer time


def _counter(ctx, p):
    """The packet counter is process-wide and counts every message ever sent; init() may find it at any value. The six
    requests go out in order with consecutive packet ids modulo 256 and init() succeeds."""
    g = Gen(p["gen"])
    inst = Installation.simple(g.n, n_acs=2, zones_per_ac=2)
    pid0 = ctx.int("pid0", 0, 255)
    with ApiRig(ctx, g, inst) as rig:
        f = g.reg.header_factory
        f._next_packet_id = pid0
        con = rig.console
        rig.start()
        rig.run(6.0)
        reqs = [(k, fr["pid"]) for _, k, fr in con.requests if k in STEPS][:6]
        detail = {"requests": [k for k, _ in reqs], "pids": [str(x) for _, x in reqs], "result": rig.init_result}
        ctx.observe("requests", len(reqs))
        ctx.check([k for k, _ in reqs] == STEPS, "order.one_at_a_time", detail=detail)
        ctx.check(sym_and(*[x == (pid0 + i) % 256 for i, (_, x) in enumerate(reqs)]), "order.one_at_a_time", detail=dict(detail, why="packet ids"))
        ctx.check(rig.init_result is True and rig.at.initialised, "success.returns_true", detail=detail)
        _check_model(ctx, rig, inst, detail)
        ctx.check(not rig.task_failures(), "no_exception", detail=[str(e.get("exception")) for e in rig.task_failures()][:3])
    for lab in expect_labels("quick"):
        ctx.reach(lab)


def _init_again(ctx, p):
    """init() called a second time without shutdown(): on an initialised object (at a free instant), after a first attempt
    that timed out because the connect took longer than 5 s, or after one that failed because the console was silent at a
    (solver-chosen) step and answers again now. The second call returns True and the model then follows the console."""
    g = Gen(p["gen"])
    how = p["how"]
    inst = Installation.simple(g.n, n_acs=2, zones_per_ac=2)
    t2 = ctx.real("t2", 6.5, 30) if how != "slow_connect" else ctx.real("t2", 5.5, 30)     # slow connect: also while it is still pending
    if how == "slow_connect":
        ctx.assume(t2 != 9)
    step = STEPS[ctx.choice("silent_step", 6)] if how == "after_silence" else None
    with ApiRig(ctx, g, inst) as rig:
        con = rig.console
        rig.net.on_connect = lambda net, n: ("accept", 9.0 if how == "slow_connect" else 0)
        if step:
            con.silent.add(step)
        rig.start()
        rig.run(6.25)
        first = rig.init_result
        ctx.check(first is (True if how in ("twice", "after_shutdown") else False), "silent.returns_false_at_5s" if how not in ("twice", "after_shutdown") else "success.returns_true",
                  detail={"how": how, "first": first})
        con.silent.clear()
        rig.init_result = None
        if how == "after_shutdown":
            rig.spawn(rig.at.shutdown())
            rig.run(6.375)
        n_before_second = len(con.requests) if how == "after_shutdown" else 0
        rig.start(at=t2)
        rig.run(t2 + 6.0 if how != "slow_connect" else t2 + 10.0)
        detail = {"how": how, "silent_step": step, "second": rig.init_result, "requests": con.kinds()[-8:]}
        ctx.observe("second", rig.init_result)
        ctx.check(rig.init_result is True and rig.at.initialised, "success.returns_true", detail=detail)
        _check_model(ctx, rig, inst, detail)
        if how in ("slow_connect", "after_shutdown"):
            # one handshake ran from the start on the connection that followed: the six requests in the fixed order, once each
            kinds = [k for _, k, _ in con.requests[n_before_second:] if k in STEPS]
            ctx.check(kinds[:6] == STEPS, "order.one_at_a_time", detail=dict(detail, why="the handshake after the second init() is not the six requests in order", kinds=kinds[:9]))
        # the model follows the console afterwards: a changed AC status report is taken up
        inst.ac_status[0] = (r4.build_ac_status(0, 0, 1, 3, 1, 1, 19, 600, 0) if g.n == 4 else r5.build_ac_status(0, 0, 1, 3, 90, 0, 0, 1, 1, 600, 0))
        con.push(con.ac_status_frame(pid=0x66, only=[0]))
        rig.run(t2 + 8.0)
        a0 = rig.ac(0)
        ok = a0 is not None and a0.power_state.name == "OFF" and a0.target_temperature == 19
        ctx.check(ok, "success.model", detail=dict(detail, why="a status report after the second init() is not taken up",
                                                   power=getattr(getattr(a0, "power_state", None), "name", None), target=str(getattr(a0, "target_temperature", None))))
        ctx.check(not rig.task_failures(), "no_exception", detail=dict(detail, errors=[str(e.get("exception")) for e in rig.task_failures()][:3]))
    for lab in expect_labels("quick"):
        ctx.reach(lab)


def run(ctx, p):
    g = Gen(p["gen"])
    kind = p["kind"]
    if kind == "counter":
        return _counter(ctx, p)
    if kind == "init_again":
        return _init_again(ctx, p)
    if kind == "zero_zones":
        inst = Installation(5)
        for a in range(p["acs"]):
            inst.acs.append({"number": a, "name": f"AC{a}", "start": 0, "count": 0, "mode_bits": 0x1F, "fan_bits": 0xFF, "limits": (16, 30, 17, 31)})
            inst.ac_status[a] = r5.build_ac_status(a, 1, 4, 2, 120, 0, 0, 0, 0, 740, 0)
            inst.timers[a] = (1, 0, 0, 1, 0, 0)
        inst.zero_zone_echo = True
    elif kind == "gap":
        # AT5 zone numbers with a gap: zones 0, 1, 3, 4; the second AC serves 3-4
        inst = Installation.simple(5, n_acs=2, zones_per_ac=2)
        inst.zones = {0: "Zone0", 1: "Zone1", 3: "Zone3", 4: "Zone4"}
        inst.zone_status = {n: r5.build_zone_status(n, 1, 1, 100, 120, 1, 730, 0, 0) for n in inst.zones}
        inst.acs[1].update(start=3, count=2)
    elif kind == "uneven":
        # ACs with different zone counts, second AC without zones
        inst = Installation.simple(p["gen"], n_acs=2, zones_per_ac=3)
        if p["gen"] == 5:
            inst.acs[0].update(start=0, count=5)
            inst.acs[1].update(start=5, count=1)
        else:
            inst.acs[0]["group_bits"] = 0b011101
            inst.acs[1]["group_bits"] = 0b100010
    else:
        inst = _install(p)

    silent = None
    extra = None
    extra2 = None
    d = 0
    delta = 0
    if kind == "silent":
        s = ctx.choice("silent", 7)          # 6 = never silent
        silent = None if s == 6 else STEPS[s]
        d = ctx.real("d", 0, 7)
        ctx.assume(d != 5)       # completion at exactly the 5 s limit is a tie (outside the claim)
    elif kind == "extra":
        slot = ctx.choice("slot", 6)
        ek = ctx.choice("ekind", len(EXTRA_KINDS))
        pos = ctx.choice("pos", 2)
        extra = (STEPS[slot], EXTRA_KINDS[ek], "before" if pos == 0 else "after")
        if p.get("two"):
            # a second interleaved frame, of a solver-chosen kind, at a solver-chosen later-or-equal slot
            slot2 = slot + ctx.choice("slot2", 6 - slot)
            ek2 = ctx.choice("ekind2", len(EXTRA_KINDS))
            pos2 = ctx.choice("pos2", 2)
            extra2 = (STEPS[slot2], EXTRA_KINDS[ek2], "before" if pos2 == 0 else "after")
    elif kind == "timing":
        d = ctx.real("d", 0, 7)
        delta = ctx.real("delta", 0, 1.2)
        ctx.assume(d + delta * 6 != 5)
    elif kind == "names":
        # unusual but legal names of a zone that belongs to an AC: empty, free two-byte (any valid UTF-8 without NUL: blanks,
        # control characters, one two-byte character), full field width without terminator (AT4: 8 bytes)
        which = ctx.choice("name_kind", 3)
        if which == 0:
            inst.zones[1] = ""
        elif which == 1:
            from sx.utf8 import utf8_valid
            nb = [ctx.byte("n0"), ctx.byte("n1")]
            ctx.assume(utf8_valid(nb))
            ctx.assume(sym_and(nb[0] != 0, nb[1] != 0))
            inst.zones[1] = nb
        else:
            inst.zones[1] = "ABCDEFGH" if p["gen"] == 4 else "ABCDEFGHIJKLMNOPQRSTUVWX"
    elif kind == "bitmap":
        # free 4-bit group bitmaps for both ACs (groups 0..3 exist)
        b0 = ctx.bits("gb0", 4)
        b1 = ctx.bits("gb1", 4)
        inst.acs[0]["group_bits"] = b0
        inst.acs[1]["group_bits"] = b1

    with ApiRig(ctx, g, inst) as rig:
        con = rig.console
        rig.net.on_connect = lambda net, n: ("accept", d)
        con.answer_delay = delta
        if silent:
            con.silent.add(silent)
        answered = []
        orig_answer = con._answer

        def logged_answer(conn, k, fr):
            answered.append((rig.loop.time(), k))
            orig_answer(conn, k, fr)

        con._answer = logged_answer
        if extra:
            step, ek, pos = extra
            raw = _extra_frame(p["gen"], ek, inst, con, step)
            if raw is None:
                # stale duplicate: a second copy of the previous step's answer (or of this one, after it)
                i = STEPS.index(step)
                prev = STEPS[i - 1] if (i > 0 and pos == "before") else step
                raw = con.answer_frames(prev, {"pid": 0x58, "data": [0xFF, 0x10, 0]})[0]
                if prev == step and pos == "before":
                    pos = "after"
            con.extra[step] = [(pos, raw)]
            if p.get("two"):
                step2, ek2_, pos2_ = extra2
                raw2 = _extra_frame(p["gen"], ek2_, inst, con, step2)
                if raw2 is None:
                    i2 = STEPS.index(step2)
                    prev2 = STEPS[i2 - 1] if (i2 > 0 and pos2_ == "before") else step2
                    raw2 = con.answer_frames(prev2, {"pid": 0x5D, "data": [0xFF, 0x10, 0]})[0]
                    if prev2 == step2 and pos2_ == "before":
                        pos2_ = "after"
                con.extra.setdefault(step2, []).append((pos2_, raw2))
        rig.start()
        rig.run(9.25)
        detail = {"silent": silent, "extra": extra, "requests": con.kinds()}
        ctx.observe("result", rig.init_result)
        ctx.observe("returned_at", rig.init_returned_at)
        ctx.observe("requests", con.kinds())
        ctx.check(rig.init_exc is None and rig.init_returned_at is not None, "no_exception", detail=dict(detail, exc=repr(rig.init_exc)))
        ctx.check(not rig.task_failures(), "no_exception", detail=dict(detail, errors=[str(e.get("exception")) for e in rig.task_failures()][:3]))
        # order: the six discovery requests, each only after the previous one was answered
        reqs = [(t, k) for t, k, _ in con.requests if k in STEPS]
        handshake = reqs[:6] if not silent else reqs[:STEPS.index(silent) + 1]
        # requests after a completed handshake (heartbeat etc.) are not part of the discovery sequence
        n_expected = 6 if not silent else STEPS.index(silent) + 1
        complete_in_time = (d + delta * 6 < 5) if not silent else False
        ct = bool(complete_in_time) if isinstance(complete_in_time, SymBool) else complete_in_time
        kinds = [k for _, k in reqs]
        first6 = kinds[:6]      # later requests (heartbeat, refresh) are not part of the discovery sequence
        if ct:
            ctx.check(first6 == STEPS, "order.one_at_a_time", detail=detail)
        else:
            ctx.check(first6 == STEPS[:len(first6)] and len(first6) <= n_expected, "order.one_at_a_time", detail=detail)
        conds = []
        for i in range(1, min(len(reqs), 6)):
            prev_ans = [t for t, k in answered if k == STEPS[i - 1]]
            if not prev_ans:
                conds.append(False)
            else:
                conds.append(reqs[i][0] >= prev_ans[0])
        ctx.check(sym_and(*conds), "order.one_at_a_time", detail=dict(detail, why="request before the previous answer"))
        if ct:
            ctx.check(rig.init_result is True and rig.at.initialised, "success.returns_true", detail=detail)
            _check_model(ctx, rig, inst, detail)
            ctx.reach("silent.returns_false_at_5s")
        else:
            ok = rig.init_result is False and rig.initialised_at_return is False
            ctx.check(ok, "silent.returns_false_at_5s", detail=dict(detail, result=rig.init_result))
            ctx.check(rig.init_returned_at == 5, "silent.returns_false_at_5s", detail=dict(detail, returned_at=str(rig.init_returned_at)))
            ctx.reach("success.returns_true")
            ctx.reach("success.model")
