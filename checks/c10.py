"""C10 — the object model always shows the console's latest report.

API objects of both generations are initialised by the real handshake (2 ACs x 2 zones); then
status / timer / error / version frames whose record bytes are symbolic (restricted to values the
protocol documents define) arrive through the real receive path, and one public getter — chosen by
a solver-enumerated index, so the cost is the sum, not the product, of the getters — is compared with
the reference reading of the most recent frame about that entity.
"""
from __future__ import annotations

import importlib

from ref import at4 as r4
from ref import at5 as r5
from ref import framing
from sx.values import SymBool, SymInt, Utf8Str, sym_and, sym_not, sym_or

from .common import ApiRig, Gen, bytes_eq
from .console import Installation

PID = "C10"
WALL_BUDGET = {"quick": 900, "thorough": 7200}
SAMPLE_RATE = {"quick": 0.02, "thorough": 0.002}
CHUNK = 32
STUBS = ["asyncio.open_connection -> FakeNet", "scripted reference console (handshake, pushes status frames, answers error-info requests)", "loop -> VLoop"]
OUTSIDE = ["histories longer than the stated number of frames", "values the documents call 'other / not available' (decoders reject them or they fall under the recorded C05 findings)",
           "one getter is inspected per path (index enumerated by the solver)"]
ASSUMPTIONS = ["selected vs active: AUTO_HEAT/AUTO_COOL report AUTO as selected and HEAT/COOL as active; 'Intelligent Auto' codes 9..14 report INTELLIGENT_AUTO as selected and quiet..turbo (code-8) as active — the repo's documented refinement of the vendor's '1001-1110: Intelligent Auto'"]

AC_GETTERS = ["power_state", "selected_mode", "active_mode", "selected_fan_speed", "active_fan_speed", "current_temperature", "target_temperature",
              "spill_state", "min_target", "max_target", "error_info"]
ZONE_GETTERS = ["power_state", "control_method", "has_temp_sensor", "sensor_battery_status", "current_temperature", "target_temperature",
                "current_damper_percentage", "spill_active", "supported_power_states"]


def bounds(tier):
    return {"frames": [1, 2] if tier == "quick" else [1, 2, 3], "acs": 2, "zones_per_ac": 2}


def instances(tier):
    out = []
    for g in (4, 5):
        out.append({"kind": "ac_status", "gen": g, "frames": 1})
        out.append({"kind": "ac_status", "gen": g, "frames": 2})
        out.append({"kind": "zone_status", "gen": g, "frames": 1})
        out.append({"kind": "zone_status", "gen": g, "frames": 2})
        out.append({"kind": "timers", "gen": g})
        out.append({"kind": "version", "gen": g})
        out.append({"kind": "error_cycle", "gen": g})
        out.append({"kind": "unknown_entity", "gen": g})
        out.append({"kind": "noncontiguous", "gen": g})
        # history: a complete report, a partial report that changes one entity, the same complete report again
        out.append({"kind": "full_partial_full", "gen": g, "what": "zone"})
        out.append({"kind": "full_partial_full", "gen": g, "what": "ac"})
        # one frame names the same zone / AC twice (a fixed record, then a free one): the later record is the console's latest word
        out.append({"kind": "repeated_in_frame", "gen": g, "what": "zone"})
        out.append({"kind": "repeated_in_frame", "gen": g, "what": "ac"})
        if tier == "thorough":
            out.append({"kind": "ac_status", "gen": g, "frames": 3})
            out.append({"kind": "zone_status", "gen": g, "frames": 3})
    return out


def expect_labels(tier):
    return ["ac_getter", "zone_getter", "timer_getter", "version_getter", "error_details", "frame_accepted", "unknown_entity_ignored"]


def api():
    return importlib.import_module("pyairtouch.api")


def _defined(ctx, code, table):
    ctx.assume(sym_or(*[code == c for c in table]))


def _resolve(code, table):
    """Concrete name for a symbolic code (forks over the table)."""
    for c, nm in table.items():
        if code == c:
            return nm
    raise AssertionError("code outside table")


SELECTED_MODE = {"AUTO": "AUTO", "HEAT": "HEAT", "DRY": "DRY", "FAN": "FAN", "COOL": "COOL", "AUTO_HEAT": "AUTO", "AUTO_COOL": "AUTO"}
ACTIVE_MODE = {"AUTO": "AUTO", "HEAT": "HEAT", "DRY": "DRY", "FAN": "FAN", "COOL": "COOL", "AUTO_HEAT": "HEAT", "AUTO_COOL": "COOL"}


def _sel_fan(nm):
    return "INTELLIGENT_AUTO" if nm.startswith("INTELLIGENT_AUTO_") else nm


def _act_fan(nm):
    return nm[len("INTELLIGENT_AUTO_"):] if nm.startswith("INTELLIGENT_AUTO_") else nm


def _sym_ac_record(ctx, g, ac, tag):
    """An AC status record with free bytes for AC `ac`, restricted to defined / available values."""
    if g == 4:
        r = [ctx.byte(f"{tag}b{j}") for j in range(8)]
        e = r4.ac_status_record(r)
        ctx.assume(e["ac_number"] == ac)
        _defined(ctx, e["power_code"], r4.AC_POWER_STATE)
        _defined(ctx, e["mode_code"], r4.AC_MODE)
        _defined(ctx, e["fan_code"], r4.AC_FAN)
        ctx.assume(sym_not(e["temp_unavailable"]))
        return r, e
    r = [ctx.byte(f"{tag}b{j}") for j in range(8)] + [0, 0]
    e = r5.ac_status_record(r)
    ctx.assume(e["ac_number"] == ac)
    _defined(ctx, e["power_code"], r5.AC_POWER_STATE)
    _defined(ctx, e["mode_code"], r5.AC_MODE)
    _defined(ctx, e["fan_code"], r5.AC_FAN)
    ctx.assume(sym_and(sym_not(e["temp_unavailable"]), sym_not(e["set_point_unavailable"])))
    return r, e


def _sym_zone_record(ctx, g, zone, tag):
    if g == 4:
        r = [ctx.byte(f"{tag}b{j}") for j in range(6)]
        e = r4.group_status_record(r)
        ctx.assume(e["group_number"] == zone)
        _defined(ctx, e["power_code"], r4.GROUP_POWER_STATE)
        return r, e
    r = [ctx.byte(f"{tag}b{j}") for j in range(7)] + [0]
    e = r5.zone_status_record(r)
    ctx.assume(e["zone_number"] == zone)
    _defined(ctx, e["power_code"], r5.ZONE_POWER_STATE)
    return r, e


def _check_ac_getter(ctx, g, acobj, e, inst_ac, getter, label="ac_getter"):
    A = api()
    T = r4 if g == 4 else r5
    det = {"getter": getter}
    if getter == "power_state":
        ctx.check(acobj.power_state is A.AcPowerState[_resolve(e["power_code"], T.AC_POWER_STATE)], label, detail=det)
    elif getter == "selected_mode":
        ctx.check(acobj.selected_mode is A.AcMode[SELECTED_MODE[_resolve(e["mode_code"], T.AC_MODE)]], label, detail=det)
    elif getter == "active_mode":
        ctx.check(acobj.active_mode is A.AcMode[ACTIVE_MODE[_resolve(e["mode_code"], T.AC_MODE)]], label, detail=det)
    elif getter == "selected_fan_speed":
        ctx.check(acobj.selected_fan_speed is A.AcFanSpeed[_sel_fan(_resolve(e["fan_code"], T.AC_FAN))], label, detail=det)
    elif getter == "active_fan_speed":
        nm = _resolve(e["fan_code"], T.AC_FAN)
        ctx.check(acobj.active_fan_speed is A.AcFanSpeed[_act_fan(nm)], label, detail=dict(det, code=nm))
    elif getter == "current_temperature":
        ctx.check(acobj.current_temperature == (e["temp_raw"] - 500) / 10.0, label, detail=det)
    elif getter == "target_temperature":
        exp = e["set_point"] if g == 4 else (e["set_point_raw"] + 100) / 10.0
        ctx.check(acobj.target_temperature == exp, label, detail=det)
    elif getter == "spill_state":
        byp = g == 5 and bool(e["bypass"] == 1)
        spl = bool(e["spill"] == 1)
        got = acobj.spill_state
        if byp and spl:
            ok = got in (A.AcSpillState.BYPASS, A.AcSpillState.SPILL)     # both flags set: no precedence is documented
        elif byp:
            ok = got is A.AcSpillState.BYPASS
        elif spl:
            ok = got is A.AcSpillState.SPILL
        else:
            ok = got is A.AcSpillState.NONE
        ctx.check(ok, label, detail=det)
    elif getter in ("min_target", "max_target"):
        lim = inst_ac["limits"]
        if g == 4:
            exp = lim[0] if getter == "min_target" else lim[1]
        else:
            mode = _resolve(e["mode_code"], T.AC_MODE)
            lc, hc, lh, hh = lim
            if getter == "min_target":
                exp = lh if mode == "HEAT" else lc if mode == "COOL" else min(lh, lc)
            else:
                exp = hh if mode == "HEAT" else hc if mode == "COOL" else max(hh, hc)
        got = acobj.min_target_temperature if getter == "min_target" else acobj.max_target_temperature
        ctx.check(got == exp, label, detail=det)
    elif getter == "error_info":
        ei = acobj.error_info
        if bool(e["error_code"] == 0):
            ctx.check(ei is None, label, detail=det)
        else:
            ctx.check(ei is not None and ei.code == e["error_code"], label, detail=det)


def _check_zone_getter(ctx, g, z, e, getter, label="zone_getter"):
    A = api()
    T = r4 if g == 4 else r5
    det = {"getter": getter}
    if getter == "power_state":
        tbl = T.GROUP_POWER_STATE if g == 4 else T.ZONE_POWER_STATE
        ctx.check(z.power_state is A.ZonePowerState[_resolve(e["power_code"], tbl)], label, detail=det)
    elif getter == "control_method":
        ctx.check(z.control_method is (A.ZoneControlMethod.TEMPERATURE if bool(e["method_code"] == 1) else A.ZoneControlMethod.DAMPER), label, detail=det)
    elif getter == "has_temp_sensor":
        ctx.check(bool(z.has_temp_sensor) == bool(e["has_sensor"] == 1), label, detail=det)
    elif getter == "sensor_battery_status":
        ctx.check(z.sensor_battery_status is (A.SensorBatteryStatus.LOW if bool(e["battery_code"] == 1) else A.SensorBatteryStatus.NORMAL), label, detail=det)
    elif getter == "current_temperature":
        absent = bool(sym_or(e["has_sensor"] == 0, e["temp_unavailable"]))
        t = z.current_temperature
        if absent:
            ctx.check(t is None, label, detail=det)
        else:
            ctx.check(t is not None and t == (e["temp_raw"] - 500) / 10.0, label, detail=det)
    elif getter == "target_temperature":
        t = z.target_temperature
        if g == 4:
            if bool(e["has_sensor"] == 0):
                ctx.check(t is None, label, detail=det)
            else:
                ctx.check(t is not None and t == e["set_point"], label, detail=det)
        else:
            if bool(e["set_point_invalid"]):
                ctx.check(t is None, label, detail=det)
            else:
                ctx.check(t is not None and t == (e["set_point_raw"] + 100) / 10.0, label, detail=det)
    elif getter == "current_damper_percentage":
        ctx.check(z.current_damper_percentage == e["damper_percentage"], label, detail=det)
    elif getter == "spill_active":
        ctx.check(bool(z.spill_active) == bool(e["spill"] == 1), label, detail=det)
    elif getter == "supported_power_states":
        sup = list(z.supported_power_states)
        turbo = True if g == 5 else bool(e["supports_turbo"] == 1)
        exp = [A.ZonePowerState.OFF, A.ZonePowerState.ON] + ([A.ZonePowerState.TURBO] if turbo else [])
        ctx.check(set(sup) == set(exp), label, detail=det)


def run(ctx, p):
    g = Gen(p["gen"])
    kind = p["kind"]
    inst = Installation.simple(g.n, n_acs=2, zones_per_ac=2)
    if kind == "noncontiguous":
        # AC numbers with a gap (and zones with a gap): reports list unknown ids *between* known ones
        hi_ac = 2 if g.n == 4 else 5
        inst.acs[1]["number"] = hi_ac
        inst.ac_status[hi_ac] = list(inst.ac_status.pop(1))
        if g.n == 4:
            inst.ac_status[hi_ac][0] = (inst.ac_status[hi_ac][0] & 0xC0) | hi_ac
        else:
            inst.ac_status[hi_ac][0] = (inst.ac_status[hi_ac][0] & 0xF0) | hi_ac
        inst.timers[hi_ac] = inst.timers.pop(1)
    with ApiRig(ctx, g, inst) as rig:
        con = rig.console
        rig.start()
        rig.run(1.0)
        ctx.check(rig.init_result is True, "frame_accepted", detail="handshake failed")
        n_conn = len(rig.net.conns)
        labels = set(expect_labels("quick"))

        def push(raw):
            con.push(raw)
            rig.run(rig.loop.vt_now() + 1.0)

        if kind == "ac_status":
            last = {}
            for f in range(p["frames"]):
                ac = ctx.choice(f"ac{f}", 2)
                if f < p["frames"] - 1:
                    # earlier frames are fixed reports (distinct from the handshake's); only the last one is free
                    r = (r4.build_ac_status(ac, 0, 1 + f, 3, 1, 1, 19 + f, 600 + f, 0) if g.n == 4
                         else r5.build_ac_status(ac, 0, 1 + f, 3, 90 + f, 0, 0, 1, 1, 600 + f, 0))
                    e = (r4 if g.n == 4 else r5).ac_status_record(r)
                else:
                    r, e = _sym_ac_record(ctx, g.n, ac, f"f{f}")
                last[ac] = e
                inst.ac_status = {ac: r}
                push(con.ac_status_frame(pid=0x40 + f, only=[ac]))
            ctx.check(len(rig.net.conns) == n_conn and not rig.task_failures(), "frame_accepted", detail="a frame of defined values was rejected")
            ac = sorted(last)[ctx.choice("which_ac", len(last))] if len(last) > 1 else sorted(last)[0]
            getter = AC_GETTERS[ctx.choice("getter", len(AC_GETTERS))]
            _check_ac_getter(ctx, g.n, rig.ac(ac), last[ac], inst.acs[ac], getter)
        elif kind == "zone_status":
            last = {}
            for f in range(p["frames"]):
                zn = ctx.choice(f"zone{f}", 4)
                if f < p["frames"] - 1:
                    r = (r4.build_group_status(zn, 3, 0, 35 + f, 1, 1, 18 + f, 1, 650 + f, 1) if g.n == 4
                         else r5.build_zone_status(zn, 3, 0, 35 + f, 80 + f, 1, 650 + f, 1, 1))
                    e = (r4.group_status_record(r) if g.n == 4 else r5.zone_status_record(r))
                else:
                    r, e = _sym_zone_record(ctx, g.n, zn, f"f{f}")
                last[zn] = e
                inst.zone_status = {zn: r}
                push(con.zone_status_frame(pid=0x40 + f, only=[zn]))
            ctx.check(len(rig.net.conns) == n_conn and not rig.task_failures(), "frame_accepted", detail="a frame of defined values was rejected")
            zn = sorted(last)[ctx.choice("which_zone", len(last))] if len(last) > 1 else sorted(last)[0]
            getter = ZONE_GETTERS[ctx.choice("getter", len(ZONE_GETTERS))]
            _check_zone_getter(ctx, g.n, rig.zone(zn), last[zn], getter)
        elif kind == "full_partial_full":
            if p["what"] == "zone":
                zn = ctx.choice("zone", 4)
                r, e = _sym_zone_record(ctx, g.n, zn, "a")
                inst.zone_status[zn] = r
                full = con.zone_status_frame(pid=0x52)
                push(full)
                other = (r4.build_group_status(zn, 3, 0, 35, 1, 1, 18, 1, 650, 1) if g.n == 4 else r5.build_zone_status(zn, 3, 0, 35, 80, 1, 650, 1, 1))
                keep = dict(inst.zone_status)
                inst.zone_status = {zn: other}
                push(con.zone_status_frame(pid=0x53, only=[zn]))
                inst.zone_status = keep
                push(list(full))
                ctx.check(len(rig.net.conns) == n_conn and not rig.task_failures(), "frame_accepted")
                getter = ZONE_GETTERS[ctx.choice("getter", len(ZONE_GETTERS))]
                _check_zone_getter(ctx, g.n, rig.zone(zn), e, getter)
            else:
                ac = ctx.choice("ac", 2)
                r, e = _sym_ac_record(ctx, g.n, ac, "a")
                ctx.assume(e["error_code"] == 0)
                inst.ac_status[ac] = r
                full = con.ac_status_frame(pid=0x52)
                push(full)
                other = (r4.build_ac_status(ac, 0, 1, 3, 1, 1, 19, 600, 0) if g.n == 4 else r5.build_ac_status(ac, 0, 1, 3, 90, 0, 0, 1, 1, 600, 0))
                keep = dict(inst.ac_status)
                inst.ac_status = {ac: other}
                push(con.ac_status_frame(pid=0x53, only=[ac]))
                inst.ac_status = keep
                push(list(full))
                ctx.check(len(rig.net.conns) == n_conn and not rig.task_failures(), "frame_accepted")
                getter = AC_GETTERS[ctx.choice("getter", len(AC_GETTERS))]
                _check_ac_getter(ctx, g.n, rig.ac(ac), e, inst.acs[ac], getter)
        elif kind == "repeated_in_frame":
            if p["what"] == "zone":
                zn = ctx.choice("zone", 4)
                r, e = _sym_zone_record(ctx, g.n, zn, "a")
                other = (r4.build_group_status(zn, 3, 0, 35, 1, 1, 18, 1, 650, 1) if g.n == 4 else r5.build_zone_status(zn, 3, 0, 35, 80, 1, 650, 1, 1))
                neighbour = inst.zone_status[(zn + 1) % 4]
                recs = [list(other), list(neighbour), list(r)]
                flat = [b for x in recs for b in x]
                push(con.frame(0x2B, flat, 0x54) if g.n == 4 else con.frame(0xC0, framing.c0(0x21, [], len(recs[0]), len(recs), flat), 0x54))
                ctx.check(len(rig.net.conns) == n_conn and not rig.task_failures(), "frame_accepted")
                getter = ZONE_GETTERS[ctx.choice("getter", len(ZONE_GETTERS))]
                _check_zone_getter(ctx, g.n, rig.zone(zn), e, getter)
            else:
                ac = ctx.choice("ac", 2)
                r, e = _sym_ac_record(ctx, g.n, ac, "a")
                ctx.assume(e["error_code"] == 0)
                other = (r4.build_ac_status(ac, 0, 1, 3, 1, 1, 19, 600, 0) if g.n == 4 else r5.build_ac_status(ac, 0, 1, 3, 90, 0, 0, 1, 1, 600, 0))
                recs = [list(other), list(inst.ac_status[1 - ac]), list(r)]
                flat = [b for x in recs for b in x]
                push(con.frame(0x2D, flat, 0x54) if g.n == 4 else con.frame(0xC0, framing.c0(0x23, [], len(recs[0]), len(recs), flat), 0x54))
                ctx.check(len(rig.net.conns) == n_conn and not rig.task_failures(), "frame_accepted")
                getter = AC_GETTERS[ctx.choice("getter", len(AC_GETTERS))]
                _check_ac_getter(ctx, g.n, rig.ac(ac), e, inst.acs[ac], getter)
        elif kind == "timers":
            A = api()
            ac = ctx.choice("ac", 2)
            tm = (ctx.bits("on_dis", 1), ctx.int("on_h", 0, 23), ctx.int("on_m", 0, 59), ctx.bits("off_dis", 1), ctx.int("off_h", 0, 23), ctx.int("off_m", 0, 59))
            inst.timers[ac] = tm
            push(con.timer_status_frame(pid=0x44))
            ctx.check(len(rig.net.conns) == n_conn and not rig.task_failures(), "frame_accepted")
            which = ctx.choice("which", 2)
            dis, h, m = (tm[0], tm[1], tm[2]) if which == 0 else (tm[3], tm[4], tm[5])
            t = rig.ac(ac).next_quick_timer(A.AcTimerType.ON_TIMER if which == 0 else A.AcTimerType.OFF_TIMER)
            if bool(dis == 1):
                ctx.check(t is None, "timer_getter", detail={"which": which})
            else:
                ctx.check(t is not None and bool(sym_and(t.hour == h, t.minute == m)), "timer_getter", detail={"which": which})
        elif kind == "version":
            upd = ctx.byte("upd")
            same_text = bool(ctx.choice("same_text", 2))
            vtext = "1.2.3" if same_text else "9.8.7"         # "1.2.3" is what the handshake reported
            inst.version = (True, vtext)
            raw = con.version_frame(pid=0x45)
            # patch the update-sign byte with a symbolic value (frame rebuilt with reference framing)
            hl = framing.header_len(g.n)
            data = list(raw[hl:-2])
            data[2] = upd
            push(con.frame(0x1F, data, pid=0x45))
            ctx.check(len(rig.net.conns) == n_conn and not rig.task_failures(), "frame_accepted")
            ctx.check(bool(rig.at.update_available) == bool(upd != 0), "version_getter")
            ctx.check(list(rig.at.console_versions) == [vtext], "version_getter", detail=str(list(rig.at.console_versions)))
        elif kind == "error_cycle":
            A = api()
            ac = ctx.choice("ac", 2)
            code = ctx.int("code", 1, 65535)
            T = r4 if g.n == 4 else r5
            con.inst.errors[ac] = "ER: FFFE"
            rec = list(inst.ac_status[ac])
            if g.n == 4:
                rec[6], rec[7] = (code >> 8) & 0xFF, code & 0xFF
            else:
                rec[6], rec[7] = (code >> 8) & 0xFF, code & 0xFF
            inst.ac_status[ac] = rec
            push(con.ac_status_frame(pid=0x46, only=[ac]))
            ei = rig.ac(ac).error_info
            ctx.check(ei is not None and bool(ei.code == code) and ei.description == "ER: FFFE", "error_details", detail=repr(ei))
            # the console reports the error information again, now without a text: the latest report counts; then with the text again
            push(con.error_frame(ac, None, pid=0x54))
            ei = rig.ac(ac).error_info
            ctx.check(ei is not None and bool(ei.code == code) and ei.description in (None, ""), "error_details",
                      detail="an error information report without text did not replace the earlier text: " + repr(ei))
            push(con.error_frame(ac, "ER: FFFE", pid=0x55))
            # another attribute changes while the error persists: code and description are still shown
            rec1 = list(rec)
            rec1[2] = (rec1[2] ^ 0x01) if g.n == 4 else (rec1[2] ^ 0x01)
            inst.ac_status[ac] = rec1
            push(con.ac_status_frame(pid=0x4D, only=[ac]))
            ei = rig.ac(ac).error_info
            ctx.check(ei is not None and bool(ei.code == code) and ei.description == "ER: FFFE", "error_details",
                      detail="description lost on a status change while the error persists: " + repr(ei))
            # the error code changes directly to another one; the console supplies a new text or none at all (zero-length
            # error information): the details are those of the latest report, never the previous error's text
            code2 = ctx.int("code2", 1, 65535)
            ctx.assume(code2 != code)
            text2 = ("ER: 0007", None)[ctx.choice("text2", 2)]
            con.inst.errors[ac] = text2
            rec3 = list(rec)
            rec3[6], rec3[7] = (code2 >> 8) & 0xFF, code2 & 0xFF
            inst.ac_status[ac] = rec3
            push(con.ac_status_frame(pid=0x4E, only=[ac]))
            ei = rig.ac(ac).error_info
            ok_text = ei is not None and (ei.description == text2 if text2 else ei.description in (None, ""))
            ctx.check(ei is not None and bool(ei.code == code2) and ok_text, "error_details",
                      detail="after a direct change of the error code: " + repr(ei) + f" expected text {text2!r}")
            con.inst.errors[ac] = "ER: FFFE"
            rec2 = list(rec)
            rec2[6], rec2[7] = 0, 0
            inst.ac_status[ac] = rec2
            push(con.ac_status_frame(pid=0x47, only=[ac]))
            ctx.check(rig.ac(ac).error_info is None, "error_details", detail="error details shown without an error code")
            # a new error: the old description must not be shown for it before the new text arrives
            con.silent.add("error")
            inst.ac_status[ac] = rec
            push(con.ac_status_frame(pid=0x48, only=[ac]))
            ei = rig.ac(ac).error_info
            ctx.check(ei is not None and ei.description is None, "error_details", detail="stale error text shown for a new error")
            # the console supplies the text; then the code changes directly to another one while the console does not answer
            # the text request (the answer is lost): the previous error's text is not shown for the new code
            con.silent.discard("error")
            rec4 = list(rec1)
            inst.ac_status[ac] = rec4
            push(con.ac_status_frame(pid=0x49, only=[ac]))
            ei = rig.ac(ac).error_info
            ctx.check(ei is not None and ei.description == "ER: FFFE", "error_details", detail="text not taken up: " + repr(ei))
            con.silent.add("error")
            rec5 = list(rec3)
            inst.ac_status[ac] = rec5
            push(con.ac_status_frame(pid=0x4A, only=[ac]))
            ei = rig.ac(ac).error_info
            ctx.check(ei is not None and bool(ei.code == code2) and ei.description in (None, ""), "error_details",
                      detail="the previous error's text is shown for a new error code: " + repr(ei))
            # an error text that arrives while the AC reports no error is not shown, and not with the next error either
            inst.ac_status[ac] = rec2
            push(con.ac_status_frame(pid=0x4C, only=[ac]))
            push(con.error_frame(ac, "ER: LATE", pid=0x4F))
            ctx.check(rig.ac(ac).error_info is None, "error_details", detail="error details shown without an error code (late text)")
            inst.ac_status[ac] = rec
            push(con.ac_status_frame(pid=0x50, only=[ac]))
            ei = rig.ac(ac).error_info
            ctx.check(ei is not None and ei.description in (None, ""), "error_details", detail="a text received while there was no error is shown for a later error: " + repr(ei))
            ctx.check(len(rig.net.conns) == n_conn and not rig.task_failures(), "frame_accepted")
        elif kind == "noncontiguous":
            A = api()
            hi_ac = 2 if g.n == 4 else 5
            which = ctx.choice("what", 2)
            if which == 0:
                # timer report: entries for unknown ACs precede the known one; its timers must still update
                tm = (ctx.bits("on_dis", 1), ctx.int("on_h", 0, 23), ctx.int("on_m", 0, 59), 1, 0, 0)
                inst.timers = {0: (1, 0, 0, 1, 0, 0), (1 if g.n == 4 else 3): (0, 5, 5, 0, 6, 6), hi_ac: tm}
                push(con.timer_status_frame(pid=0x4B))
                t = rig.ac(hi_ac).next_quick_timer(A.AcTimerType.ON_TIMER)
                if bool(tm[0] == 1):
                    ctx.check(t is None, "timer_getter", detail="non-contiguous AC numbers")
                else:
                    ctx.check(t is not None and bool(sym_and(t.hour == tm[1], t.minute == tm[2])), "timer_getter", detail="non-contiguous AC numbers")
            else:
                # status report: a record for an unknown AC followed by a free record for the known one
                r, e = _sym_ac_record(ctx, g.n, hi_ac, "m")
                unk = (r4.build_ac_status(1, 0, 1, 1, 1, 1, 30, 600, 7) if g.n == 4 else r5.build_ac_status(3, 0, 1, 1, 50, 1, 1, 1, 1, 600, 7))
                inst.ac_status = {99: unk, hi_ac: r}
                push(con.ac_status_frame(pid=0x4C))
                getter = AC_GETTERS[ctx.choice("getter", 4)]
                _check_ac_getter(ctx, g.n, rig.ac(hi_ac), e, inst.acs[1], getter)
            ctx.check(len(rig.net.conns) == n_conn and not rig.task_failures(), "frame_accepted")
        elif kind == "unknown_entity":
            # reports about ACs / zones the console never described are ignored; known ones keep their values
            before = (rig.ac(0).power_state, rig.ac(1).target_temperature, rig.zone(0).current_damper_percentage)
            if g.n == 4:
                push(con.frame(0x2D, r4.build_ac_status(3, 0, 1, 1, 1, 1, 30, 600, 7), pid=0x49))
                push(con.frame(0x2B, r4.build_group_status(9, 0, 0, 5, 0, 0, 30, 1, 600, 1), pid=0x4A))
            else:
                push(con.frame(0xC0, framing.c0(0x23, [], 10, 1, r5.build_ac_status(9, 0, 1, 1, 50, 1, 1, 1, 1, 600, 7)), pid=0x49))
                push(con.frame(0xC0, framing.c0(0x21, [], 8, 1, r5.build_zone_status(9, 0, 0, 5, 50, 1, 600, 1, 1)), pid=0x4A))
            after = (rig.ac(0).power_state, rig.ac(1).target_temperature, rig.zone(0).current_damper_percentage)
            ctx.check(before == after and len(list(rig.at.air_conditioners)) == 2 and len(rig.net.conns) == n_conn and not rig.task_failures(),
                      "unknown_entity_ignored")
        for lab in labels:
            ctx.reach(lab)
