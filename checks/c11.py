"""C11 — invalid requests are refused locally; valid ones are shaped as documented.

Same scenario as C04 (public call on API objects built by the real handshake; configuration and
arguments symbolic), with the refusal side as the oracle: unsupported power control / mode / fan
speed / zone power state, damper outside 0..100, set-point on a sensor-less zone raise ValueError
and transmit nothing; every accepted call transmits exactly one frame; AC set-points are rounded
to the resolution and clamped into the current [min,max]; a quick-timer change leaves the other
timer exactly as last reported.
"""
from __future__ import annotations

import importlib

from ref import at4 as r4
from ref import at5 as r5
from sx.values import SymBool, sym_and, sym_implies, sym_not, sym_or

from . import apicmd
from .common import bytes_eq

PID = "C11"
WALL_BUDGET = {"quick": 900, "thorough": 7200}
SAMPLE_RATE = {"quick": 0.02, "thorough": 0.002}
CHUNK = 32
STUBS = ["asyncio.open_connection -> FakeNet", "scripted reference console (handshake answers)", "loop -> VLoop"]
OUTSIDE = ["ability bitmaps: the bitmap relevant to the call is symbolic (all 2^5 mode / 2^7-2^8 fan values), the other one fixed",
           "AT4 set-point limits outside 0..62, AT5 limits outside 10..35 degC; inconsistent limits (min > max)"]
ASSUMPTIONS = ["supported power controls: AT4 = toggle/off/on, AT5 adds away/sleep (documented difference); AT5 zones always offer off/on/turbo; AT4 zones offer turbo iff the group status says so"]


def bounds(tier):
    return {"temperature_grid": "j/100 for j in [-1000,6000] (0.01 degC, ties included)", "damper": "[-5,105]", "mode_bitmaps": "all 32", "fan_bitmaps": "all 128 (AT4) / 256 (AT5)",
            "reported_timers": "all (disabled, hour 0..23, minute 0..59) for both timers", "numbering": "fixed AC 1 / zone 3 except the addressing instances" if tier == "quick" else "every call over every AC / zone number", "ability_bitmaps": "the bitmap relevant to the call free, the other fixed" if tier == "quick" else "also both bitmaps free at once (ac_mode, ac_fan)"}


def instances(tier):
    out = []
    for p in apicmd.instances(tier):
        if p["call"] in ("ac_temp", "zone_temp"):
            p = dict(p, grid=100)        # a finer grid than C04's 0.05 degC: 0.01 degC, ties included
        out.append(p)
    for g in (4, 5):
        out.append({"kind": "timer_sequence", "gen": g, "call": "timer_sequence", "vary": "config"})
    out += apicmd.sequence_instances(tier)
    # AT4 zones of one system that differ in turbo support, asked in either order: what one zone supports says nothing about another
    out.append({"kind": "turbo_mix", "gen": 4, "call": "turbo_mix", "vary": "history"})
    return out


def expect_labels(tier):
    return ["refusal_iff_unsupported", "refused_writes_nothing", "accepted_writes_one_frame", "setpoint_rounded_and_clamped", "other_timer_untouched"]


def _bit(bits, n):
    return ((bits >> n) & 1) == 1


def _turbo_mix(ctx, p):
    from .common import ApiRig, Gen
    from .console import Installation
    from ref import at4 as r4
    A = importlib.import_module("pyairtouch.api")
    g = Gen(4)
    inst = Installation.simple(4, n_acs=2, zones_per_ac=2)
    turbo_zone = ctx.choice("turbo_zone", 4)
    other = (turbo_zone + 1 + ctx.choice("other_offset", 3)) % 4
    for n in range(4):
        inst.zone_status[n] = r4.build_group_status(n, 1, 0, 50, 0, 1 if n == turbo_zone else 0, 22, 0, 0, 0)
    first = ("query", "command", "none")[ctx.choice("first", 3)]
    with ApiRig(ctx, g, inst) as rig:
        rig.start()
        rig.run(1.0)
        ctx.check(rig.init_result is True, "refusal_iff_unsupported", detail="handshake failed")
        con = rig.console
        zt, zo = rig.zone(turbo_zone), rig.zone(other)
        res = {}

        async def go():
            if first == "query":
                res["first"] = [s.name for s in zt.supported_power_states]
            elif first == "command":
                try:
                    await zt.set_power(A.ZonePowerState.TURBO)
                    res["first"] = "ok"
                except Exception as e:  # noqa: BLE001
                    res["first"] = type(e).__name__
            res["n0"] = len(con.requests)
            try:
                await zo.set_power(A.ZonePowerState.TURBO)
                res["second"] = "ok"
            except ValueError:
                res["second"] = "ValueError"
            except Exception as e:  # noqa: BLE001
                res["second"] = type(e).__name__

        rig.spawn(go())
        rig.run(2.5)
        detail = {"turbo_zone": turbo_zone, "other": other, "first": first, "results": {k: str(v) for k, v in res.items()}}
        if first == "command":
            ctx.check(res.get("first") == "ok", "refusal_iff_unsupported", detail=detail)
        if first == "query":
            ctx.check("TURBO" in (res.get("first") or []), "refusal_iff_unsupported", detail=detail)
        ctx.check(res.get("second") == "ValueError", "refusal_iff_unsupported", detail=dict(detail, why="TURBO accepted for a zone the console reports without turbo support"))
        ctx.check(len(con.requests) == res.get("n0"), "refused_writes_nothing", detail=dict(detail, frames=len(con.requests) - res.get("n0", 0)))
        ctx.check("TURBO" not in [s.name for s in zo.supported_power_states] and "TURBO" in [s.name for s in zt.supported_power_states], "refusal_iff_unsupported", detail=detail)
        ctx.check(not rig.task_failures(), "refused_writes_nothing", detail="unhandled exception")
    for lab in expect_labels("quick"):
        ctx.reach(lab)


def _timer_sequence(ctx, p):
    """Two quick-timer calls in a row, with or without a timer report from the console in between: in each frame the
    timer that is not being changed is exactly as the console last reported it (not as this client last sent it)."""
    import datetime
    from sx import shims
    from .common import ApiRig, Gen
    from .console import Installation
    A = apicmd.api()
    g = Gen(p["gen"])
    inst = Installation.simple(g.n, n_acs=1, zones_per_ac=1)
    tm = (ctx.bits("on_dis", 1), ctx.int("on_h", 0, 23), ctx.int("on_m", 0, 59), ctx.bits("off_dis", 1), ctx.int("off_h", 0, 23), ctx.int("off_m", 0, 59))
    inst.timers[0] = tm
    types = list(A.AcTimerType)
    first = types[ctx.choice("first", 2)]
    second = types[ctx.choice("second", 2)]
    op1_set = bool(ctx.choice("op1", 2))
    op2_set = bool(ctx.choice("op2", 2))
    report_between = bool(ctx.choice("report_between", 2))
    h1, m1 = ctx.int("h1", 0, 23), ctx.int("m1", 0, 59)
    h2, m2 = ctx.int("h2", 0, 23), ctx.int("m2", 0, 59)
    mk = (lambda h, m: shims.SxTime(h, m) if ctx.symbolic else datetime.time(h, m))
    with ApiRig(ctx, g, inst) as rig:
        rig.start()
        rig.run(1.0)
        ctx.check(rig.init_result is True, "accepted_writes_one_frame", detail="handshake failed")
        con = rig.console
        ac = rig.ac(0)
        res = {}

        def call(tt, is_set, h, m, key):
            async def go():
                try:
                    if is_set:
                        await ac.set_quick_timer(tt, mk(h, m))
                    else:
                        await ac.clear_quick_timer(tt)
                    res[key] = None
                except Exception as e:  # noqa: BLE001
                    res[key] = type(e).__name__
            return go

        def apply(cur, tt, is_set, h, m):
            new = (0, h, m) if is_set else (1, 0, 0)
            return (new + cur[3:6]) if tt is A.AcTimerType.ON_TIMER else (cur[0:3] + new)

        n0 = len(con.requests)
        rig.spawn(call(first, op1_set, h1, m1, 1)())
        rig.run(2.0)
        reported = tm
        if report_between:
            reported = apply(tm, first, op1_set, h1, m1)       # the console reports the timers as they are after the first call
            inst.timers[0] = reported
            con.push(con.timer_status_frame(pid=0x61))
            rig.run(3.0)
        n1 = len(con.requests)
        rig.spawn(call(second, op2_set, h2, m2, 2)())
        rig.run(4.0)
        f1 = [fr for _, k, fr in con.requests[n0:n1] if k == "timer_ctrl"]
        f2 = [fr for _, k, fr in con.requests[n1:] if k == "timer_ctrl"]
        detail = {"first": first.name, "second": second.name, "set": [op1_set, op2_set], "report_between": report_between, "results": dict(res)}
        ctx.check(res.get(1, "x") is None and res.get(2, "x") is None and len(f1) == 1 and len(f2) == 1, "accepted_writes_one_frame", detail=dict(detail, frames=[len(f1), len(f2)]))
        for fr, base, tt in ((f1[0], tm, first), (f2[0], reported, second)):
            data = fr["data"]
            rec = data[0:4] if g.n == 4 else data[9:13]
            if tt is A.AcTimerType.ON_TIMER:
                other = bytes_eq(rec[2:4], [(base[3] << 7) | base[4], base[5]])
            else:
                other = bytes_eq(rec[0:2], [(base[0] << 7) | base[1], base[2]])
            ctx.check(other, "other_timer_untouched", detail=dict(detail, frame=("first" if fr is f1[0] else "second")))
        for lab in expect_labels("quick"):
            ctx.reach(lab)


def run(ctx, p):
    if p.get("kind") == "turbo_mix":
        return _turbo_mix(ctx, p)
    if p.get("kind") == "timer_sequence":
        return _timer_sequence(ctx, p)
    if p.get("kind") == "call_sequence":
        apicmd.run_sequence(ctx, p, "accepted_writes_one_frame" if p["what"] != "timers_two_acs" else "other_timer_untouched")
        for lab in expect_labels("quick"):
            ctx.reach(lab)
        return
    A = apicmd.api()
    out = apicmd.scenario(ctx, p)
    env, gen, call = out["env"], out["gen"], p["call"]
    args = env["args"]
    detail = {"call": call, "args": {k: repr(v) for k, v in args.items()}, "raised": out["raised"]}
    ctx.check(out["init"] is True, "accepted_writes_one_frame", detail="handshake failed")
    # ---- should the call be refused?
    if call == "ac_power":
        unsupported = gen == 4 and args["pc"].name in ("SET_TO_AWAY", "SET_TO_SLEEP")
    elif call == "ac_mode":
        tbl = r4.MODE_BIT if gen == 4 else r5.MODE_BIT
        unsupported = sym_not(_bit(env["mode_bits"], tbl[args["mode"].name]))
    elif call == "ac_fan":
        tbl = r4.FAN_BIT if gen == 4 else r5.FAN_BIT
        nm = args["fs"].name
        unsupported = True if nm not in tbl else sym_not(_bit(env["fan_bits"], tbl[nm]))
    elif call == "zone_power":
        unsupported = (args["ps"].name == "TURBO") and gen == 4 and True
        if unsupported:
            unsupported = env["turbo"] == 0
    elif call == "zone_damper":
        unsupported = sym_or(args["pct"] < 0, args["pct"] > 100)
    elif call == "zone_temp":
        unsupported = env["sensor"] == 0
    else:
        unsupported = False
    refused = out["raised"] == "ValueError"
    ctx.check(out["raised"] in (None, "ValueError"), "refusal_iff_unsupported", detail=detail)
    if p["vary"] == "beyond_field":
        # a zone set-point the protocol field cannot carry: refusing it (ValueError, nothing written) is fine, transmitting it is
        # judged by C04; accepting the call and transmitting nothing is not ("each accepted call transmits exactly one frame")
        if refused:
            ctx.check(len(out["frames"]) == 0, "refused_writes_nothing", detail=dict(detail, frames=len(out["frames"])))
        else:
            ctx.check(len(out["frames"]) == 1, "accepted_writes_one_frame", detail=dict(detail, frames=len(out["frames"]), why="accepted, nothing transmitted"))
        for lab in expect_labels("quick"):
            ctx.reach(lab)
        return
    if refused:
        ctx.check(unsupported, "refusal_iff_unsupported", detail=dict(detail, why="refused a supported request"))
        ctx.check(len(out["frames"]) == 0, "refused_writes_nothing", detail=dict(detail, frames=len(out["frames"])))
        for lab in ("accepted_writes_one_frame", "setpoint_rounded_and_clamped", "other_timer_untouched"):
            ctx.reach(lab)
        return
    ctx.check(sym_not(unsupported), "refusal_iff_unsupported", detail=dict(detail, why="accepted an unsupported request"))
    ctx.reach("refused_writes_nothing")

    ctx.check(len(out["frames"]) == 1, "accepted_writes_one_frame", detail=dict(detail, frames=len(out["frames"])))
    ctx.check(not out["failures"], "accepted_writes_one_frame", detail="unhandled exception")
    data = out["frames"][0]["data"]
    if call == "zone_temp":
        j, D = args["j"], args["D"]
        if gen == 4:
            k = r4.group_control(data)["value"]
            ok = sym_and(k * D - j <= D // 2, j - k * D <= D // 2)          # rounded to 1 degC
        else:
            K = r5.zone_control_record(data[8:12])["value"] + 100
            ok = sym_and(K * D - j * 10 <= D // 2, j * 10 - K * D <= D // 2)  # rounded to 0.1 degC
        ctx.check(ok, "setpoint_rounded_and_clamped", detail=detail)
    elif call == "ac_temp":
        j, D = args["j"], args["D"]
        H = D // 2
        if gen == 4:
            lo, hi = env["limits"]
            k = r4.ac_control(data)["sp_value"]
            ok = sym_and(r4.ac_control(data)["sp_type"] == 1, k >= lo, k <= hi,
                         sym_implies(k > lo, k * D - j <= H), sym_implies(k < hi, j - k * D <= H),
                         # unclamped requests: rounded to the 1 degC resolution
                         sym_implies(sym_and(j >= lo * D, j <= hi * D), sym_and(k * D - j <= H, j - k * D <= H)))
        else:
            from sx.values import sym_ite
            lc, hc, lh, hh = env["limits"]
            mc = env["mode_code"]
            lo = sym_ite(mc == 1, lh, sym_ite(mc == 4, lc, sym_ite(lh <= lc, lh, lc))) * 10
            hi = sym_ite(mc == 1, hh, sym_ite(mc == 4, hc, sym_ite(hh >= hc, hh, hc))) * 10
            c = r5.ac_control_record(data[8:12])
            K = c["sp_value"] + 100
            ok = sym_and(c["sp_control"] == 0x40, K >= lo, K <= hi, sym_implies(K > lo, K * D - j * 10 <= H), sym_implies(K < hi, j * 10 - K * D <= H),
                         sym_implies(sym_and(j * 10 >= lo * D, j * 10 <= hi * D), sym_and(K * D - j * 10 <= H, j * 10 - K * D <= H)))
        ctx.check(ok, "setpoint_rounded_and_clamped", detail=detail)
    else:
        ctx.reach("setpoint_rounded_and_clamped")
    if call in ("ac_timer_time", "ac_timer_clear"):
        on_dis, on_h, on_m, off_dis, off_h, off_m = env["timers"]
        a = env["ac"]
        rec = data[8 * a:8 * a + 4] if gen == 4 else data[9:13]
        if args["tt"] is A.AcTimerType.ON_TIMER:
            other = bytes_eq(rec[2:4], [(off_dis << 7) | off_h, off_m])
        else:
            other = bytes_eq(rec[0:2], [(on_dis << 7) | on_h, on_m])
        ctx.check(other, "other_timer_untouched", detail=detail)
    else:
        ctx.reach("other_timer_untouched")
