"""C12 — subscribers hear about every change, and only about changes.

API objects of both generations after the real handshake (2 ACs x 2 zones) with recording
subscribers on the AirTouch, an AC (general and AC-state-only) and a zone; a solver-enumerated
arrangement (subscribed once / twice / unsubscribed again, a raising subscriber present or not).
Frame 1 repeats the handshake report bit for bit, frame 2 has free record bytes, frame 3 is a fixed
different report. Reading of 'change' (DESIGN.md section 5): notified <= an exposed attribute
changed; not notified <= identical in every decoded field; otherwise either.
"""
from __future__ import annotations

from ref import at4 as r4
from ref import at5 as r5
from ref import framing
from sx.values import SymBool, sym_and, sym_not, sym_or

from . import c10
from .common import ApiRig, Gen
from .console import Installation

PID = "C12"
WALL_BUDGET = {"quick": 900, "thorough": 7200}
SAMPLE_RATE = {"quick": 0.02, "thorough": 0.002}
CHUNK = 32
STUBS = ["asyncio.open_connection -> FakeNet", "scripted reference console (handshake; pushes frames; answers error-info requests)", "loop -> VLoop"]
OUTSIDE = ["more than three frames per history", "reports differing only in decoded-but-unexposed fields (timer_set, turbo_active) may or may not notify"]
ASSUMPTIONS = ["exposed AC attributes: power, mode, fan, set-point, temperature, spill/bypass, error code; exposed zone attributes: power, control method, damper, set-point, temperature, sensor, battery, spill, turbo support"]


def bounds(tier):
    return {"frames": 3, "arrangements": ["once", "twice", "unsubscribed"], "raising_subscriber": [False, True],
            "target_entity": "AC 0 / zone 0" if tier == "quick" else "either AC, each of the four zones"}


def instances(tier):
    out = []
    for g in (4, 5):
        for k in ("ac", "zone", "timer", "error", "error_silent", "version"):
            out.append({"kind": k, "gen": g})
        out.append({"kind": "unsub_during_handler", "gen": g})
        out.append({"kind": "multi_entity", "gen": g})      # one frame changes every zone / both ACs; a failing subscriber somewhere
        if tier == "thorough":
            # the other entities as target: second AC, every other zone (owned by either AC)
            for k in ("ac", "timer", "error", "error_silent"):
                out.append({"kind": k, "gen": g, "target": 1})
            for z in (1, 2, 3):
                out.append({"kind": "zone", "gen": g, "target": z})
    return out


def expect_labels(tier):
    return ["repeat_is_silent", "change_notifies", "identical_is_silent", "right_identifier", "zone_reaches_ac_general_only",
            "double_subscribe_once", "unsubscribe_stops", "raiser_does_not_starve", "later_frames_still_notify"]


class _Holder:
    def __init__(self, log):
        self.log = log

    async def on_update(self, ident):
        self.log.append(("bound", ident))


class Rec:
    def __init__(self, name, log, raises=False):
        self.name, self.log, self.raises = name, log, raises

    async def __call__(self, ident):
        self.log.append((self.name, ident))
        if self.raises:
            raise RuntimeError("subscriber failure")


def _b(x):
    return bool(x) if isinstance(x, SymBool) else x


def _multi_entity(ctx, p):
    """One status frame changes all four zones, a second one both ACs. A subscriber that raises sits (solver-chosen) nowhere,
    on the first zone / AC, or on the socket as a second message subscriber next to the API object. Every changed entity's
    subscribers are called once with their own identifier, each zone change reaches its owner's general subscribers, and
    the model shows the new values for every entity - a failing subscriber takes nothing away from the others."""
    g = Gen(p["gen"])
    inst = Installation.simple(g.n, n_acs=2, zones_per_ac=2)
    where = ("none", "entity", "socket")[ctx.choice("raiser_at", 3)]
    log = []
    with ApiRig(ctx, g, inst) as rig:
        con = rig.console
        rig.start()
        rig.run(1.0)
        ctx.check(rig.init_result is True, "raiser_does_not_starve", detail="handshake failed")
        zones = [rig.zone(n) for n in range(4)]
        acs = [rig.ac(0), rig.ac(1)]
        if where == "entity":
            zones[0].subscribe(Rec("raiser", log, raises=True))
            acs[0].subscribe(Rec("raiser", log, raises=True))
        elif where == "socket":
            async def failing(header, message):
                raise RuntimeError("message subscriber failure")
            rig.at._socket.subscribe_on_message_received(failing)
        for n, z in enumerate(zones):
            z.subscribe(Rec(f"zone{n}", log))
        for n, a in enumerate(acs):
            a.subscribe(Rec(f"ac{n}", log))
            a.subscribe_ac_state(Rec(f"acstate{n}", log))
        detail = {"raiser_at": where}
        # ---- every zone's damper opening changes --------------------------------------------------------------
        for n in range(4):
            inst.zone_status[n] = (r4.build_group_status(n, 1, 0, 15 + 5 * n, 0, 0, 22, 0, 0, 0) if g.n == 4
                                   else r5.build_zone_status(n, 1, 0, 15 + 5 * n, 0xFF, 0, 0x7FF, 0, 0))
        n0 = len(log)
        # the frame also names a zone the client does not know (no name, no owner), at a solver-chosen place among the others
        unknown = (r4.build_group_status(9, 1, 0, 40, 0, 0, 22, 0, 0, 0) if g.n == 4 else r5.build_zone_status(9, 1, 0, 40, 0xFF, 0, 0x7FF, 0, 0))
        recs = [list(inst.zone_status[n]) for n in range(4)]
        at = ctx.choice("unknown_zone_at", 6)        # 0..4: position in the frame, 5: not there
        if at < 5:
            recs.insert(at, list(unknown))
        flat = [b for r in recs for b in r]
        from ref import framing
        con.push(con.frame(0x2B, flat, 0x62) if g.n == 4 else con.frame(0xC0, framing.c0(0x21, [], len(recs[0]), len(recs), flat), 0x62))
        rig.run(rig.loop.vt_now() + 1.0)
        calls = [c for c in log[n0:] if c[0] != "raiser"]
        ctx.observe("zone_calls", len(calls))
        detail = dict(detail, unknown_zone_at=at)
        for n in range(4):
            ctx.check(calls.count((f"zone{n}", n)) == 1, "raiser_does_not_starve", detail=dict(detail, zone=n, calls=calls))
            ctx.check(zones[n].current_damper_percentage == 15 + 5 * n, "raiser_does_not_starve",
                      detail=dict(detail, zone=n, damper=str(zones[n].current_damper_percentage), why="model not updated"))
        for a in range(2):
            ctx.check(calls.count((f"ac{a}", a)) == 2 and calls.count((f"acstate{a}", a)) == 0, "zone_reaches_ac_general_only", detail=dict(detail, ac=a, calls=calls))
        # ---- both ACs' set-points change ------------------------------------------------------------------------
        for a in range(2):
            inst.ac_status[a] = (r4.build_ac_status(a, 1, 1, 3, 0, 0, 19 + a, 600, 0) if g.n == 4 else r5.build_ac_status(a, 1, 1, 3, 90 + 10 * a, 0, 0, 0, 0, 600, 0))
        n0 = len(log)
        con.push(con.ac_status_frame(pid=0x63))
        rig.run(rig.loop.vt_now() + 1.0)
        calls = [c for c in log[n0:] if c[0] != "raiser"]
        for a in range(2):
            ctx.check(calls.count((f"ac{a}", a)) == 1 and calls.count((f"acstate{a}", a)) == 1, "raiser_does_not_starve", detail=dict(detail, ac=a, calls=calls))
            ctx.check(acs[a].target_temperature == 19 + a, "raiser_does_not_starve", detail=dict(detail, ac=a, target=str(acs[a].target_temperature)))
        # ---- and the next frame still notifies -------------------------------------------------------------------
        inst.zone_status[3] = (r4.build_group_status(3, 1, 0, 95, 0, 0, 22, 0, 0, 0) if g.n == 4 else r5.build_zone_status(3, 1, 0, 95, 0xFF, 0, 0x7FF, 0, 0))
        n0 = len(log)
        con.push(con.zone_status_frame(pid=0x64, only=[3]))
        rig.run(rig.loop.vt_now() + 1.0)
        ctx.check(log[n0:].count(("zone3", 3)) == 1, "later_frames_still_notify", detail=dict(detail, calls=log[n0:]))
        ctx.check(len(rig.net.conns) == 1, "later_frames_still_notify", detail="connection was reset")
    for lab in expect_labels("quick"):
        ctx.reach(lab)


def _unsub_during_handler(ctx, p):
    """A status frame with a new error code makes the client ask for the error text; that write is held up (back-pressure)
    while the handler is suspended in it. A subscriber that unsubscribes in the meantime is not called any more, the
    others are - for the status change and for the error text."""
    g = Gen(p["gen"])
    inst = Installation.simple(g.n, n_acs=2, zones_per_ac=2)
    inst.errors[0] = "ER: 0001"
    t_unsub = ctx.real("t_unsub", 0, 1)          # relative to the frame's arrival; the write is held for 0.5 s
    ctx.assume(t_unsub != 0.5)
    log = []
    with ApiRig(ctx, g, inst) as rig:
        con = rig.console
        rig.start()
        rig.run(1.0)
        ctx.check(rig.init_result is True, "unsubscribe_stops", detail="handshake failed")
        ac0 = rig.ac(0)
        leaver, stayer = Rec("leaver", log), Rec("stayer", log)
        ac0.subscribe(leaver)
        ac0.subscribe(stayer)
        hold = {"on": True}

        def on_drain(conn, n):
            if hold["on"] and con.requests and con.requests[-1][1] == "error":
                hold["on"] = False
                return 0.5
            return None

        rig.net.on_drain = on_drain
        rec = list(inst.ac_status[0])
        rec[6], rec[7] = 0x12, 0x34
        inst.ac_status[0] = rec
        t0 = 2.0
        times = {}
        rig.loop.vt_call_at(t0, lambda: con.push(con.ac_status_frame(pid=0x61, only=[0])))

        def leave():
            times["n_leaver_before"] = [c[0] for c in log].count("leaver")
            ac0.unsubscribe(leaver)

        rig.loop.vt_call_at(t0 + t_unsub, leave)
        rig.run(t0 + 3.0)
        names = [c[0] for c in log]
        after = names.count("leaver") - times.get("n_leaver_before", 0)
        detail = {"calls": log, "leaver_calls_after_unsubscribe": after}
        ctx.observe("calls", sorted(names))          # (the order among subscribers of one notification is set order: not observable)
        ctx.check(after == 0, "unsubscribe_stops", detail=detail)
        ctx.check(names.count("stayer") >= 1, "change_notifies", detail=detail)
        ctx.check(not rig.task_failures(), "later_frames_still_notify", detail="task failure")
    for lab in expect_labels("quick"):
        ctx.reach(lab)


def run(ctx, p):
    if p["kind"] == "unsub_during_handler":
        return _unsub_during_handler(ctx, p)
    if p["kind"] == "multi_entity":
        return _multi_entity(ctx, p)
    g = Gen(p["gen"])
    kind = p["kind"]
    inst = Installation.simple(g.n, n_acs=2, zones_per_ac=2)
    tgt = p.get("target", 0)
    ta = tgt if kind != "zone" else tgt // 2          # the AC concerned (owner of the target zone)
    tz = tgt if kind == "zone" else 0
    inst.errors[ta] = "ER: 0001"
    arrangement = ("once", "twice", "unsub")[ctx.choice("arrangement", 3)]
    with_raiser = bool(ctx.choice("raiser", 2))
    log = []
    with ApiRig(ctx, g, inst) as rig:
        con = rig.console
        rig.start()
        rig.run(1.0)
        ctx.check(rig.init_result is True, "repeat_is_silent", detail="handshake failed")
        at = rig.at
        ac0, ac1 = rig.ac(ta), rig.ac(1 - ta)
        z0 = rig.zone(tz)
        probe_gen, probe_state, probe_zone, probe_at = Rec("ac_general", log), Rec("ac_state", log), Rec("zone", log), Rec("airtouch", log)
        other_ac = Rec("other_ac", log)
        if with_raiser:
            raiser = Rec("raiser", log, raises=True)
            {"ac": ac0.subscribe, "timer": ac0.subscribe, "error": ac0.subscribe, "error_silent": ac0.subscribe, "zone": z0.subscribe, "version": at.subscribe}[kind](raiser)
        target = {"ac": (ac0.subscribe, ac0.unsubscribe, probe_gen), "timer": (ac0.subscribe, ac0.unsubscribe, probe_gen),
                  "error": (ac0.subscribe, ac0.unsubscribe, probe_gen), "error_silent": (ac0.subscribe, ac0.unsubscribe, probe_gen),
                  "zone": (z0.subscribe, z0.unsubscribe, probe_zone),
                  "version": (at.subscribe, at.unsubscribe, probe_at)}[kind]
        sub, unsub, probe = target
        sub(probe)
        if arrangement == "twice":
            sub(probe)
        elif arrangement == "unsub":
            unsub(probe)
        state_arr = ("once", "twice", "unsub")[ctx.choice("state_arrangement", 3)] if kind in ("ac", "timer") else "once"
        ac0.subscribe_ac_state(probe_state)
        if state_arr == "twice":
            ac0.subscribe_ac_state(probe_state)
        elif state_arr == "unsub":
            ac0.unsubscribe_ac_state(probe_state)
        if kind == "zone":
            ac0.subscribe(probe_gen)
        ac1.subscribe(other_ac)
        ac1.subscribe_ac_state(other_ac)
        # subscribers given as bound methods (the bound-method object itself is not kept by the application)
        holder = _Holder(log)
        {"ac": ac0.subscribe, "timer": ac0.subscribe, "error": ac0.subscribe, "error_silent": ac0.subscribe, "zone": z0.subscribe, "version": at.subscribe}[kind](holder.on_update)
        # the same callback registered in both roles and withdrawn from one of them: the two registrations are independent
        dual_state, dual_gen = Rec("dual_state", log), Rec("dual_gen", log)
        if kind in ("ac", "timer", "zone"):
            ac0.subscribe(dual_state)
            ac0.subscribe_ac_state(dual_state)
            ac0.unsubscribe(dual_state)              # remains an AC-state subscriber
            ac0.subscribe_ac_state(dual_gen)
            ac0.subscribe(dual_gen)
            ac0.unsubscribe_ac_state(dual_gen)       # remains a general subscriber
        expect_probe = arrangement != "unsub"

        def push(raw):
            n0 = len(log)
            con.push(raw)
            rig.run(rig.loop.vt_now() + 1.0)
            return log[n0:]

        T = r4 if g.n == 4 else r5
        n_conn = len(rig.net.conns)
        detail = {"kind": kind, "arrangement": arrangement, "raiser": with_raiser}
        # ---- frame 1: bit-identical repeat --------------------------------------------------------
        if kind == "error_silent":
            con.silent.add("error")       # the console never supplies the error text: only status changes can notify
        if kind in ("ac", "error", "error_silent"):
            calls = push(con.ac_status_frame(pid=0x60))
        elif kind == "zone":
            calls = push(con.zone_status_frame(pid=0x60))
        elif kind == "timer":
            calls = push(con.timer_status_frame(pid=0x60))
        else:
            calls = push(con.version_frame(pid=0x60))
        ctx.check(calls == [], "repeat_is_silent", detail=dict(detail, calls=calls))
        # ---- frame 2: free content -----------------------------------------------------------------
        exposed_changed = None
        identical = None
        ident = ta
        if kind == "ac":
            old = T.ac_status_record(inst.ac_status[ta])
            r, e = c10._sym_ac_record(ctx, g.n, ta, "n")
            ctx.assume(e["error_code"] == 0)      # the error-text exchange (a second notification) is the 'error' instance
            keys = ["power_code", "mode_code", "fan_code", "spill", "error_code"] + (["set_point"] if g.n == 4 else ["set_point_raw", "bypass"]) + ["temp_raw"]
            allkeys = [k for k in e if k not in ("temp_unavailable", "set_point_unavailable")]
            exposed_changed = sym_or(*[e[k] != old[k] for k in keys])
            identical = sym_and(*[e[k] == old[k] for k in allkeys])
            inst.ac_status[ta] = r
            calls = push(con.ac_status_frame(pid=0x61, only=[ta]))
        elif kind == "zone":
            old = (r4.group_status_record if g.n == 4 else r5.zone_status_record)(inst.zone_status[tz])
            r, e = c10._sym_zone_record(ctx, g.n, tz, "n")
            if g.n == 4:
                keys = ["power_code", "method_code", "damper_percentage", "battery_code", "supports_turbo", "has_sensor", "spill"]
                cond = [e[k] != old[k] for k in keys]
                # temperature / set-point are exposed only through a sensor
                vis_old = old["has_sensor"] == 1
                cond.append(sym_and(e["has_sensor"] == 1, vis_old, sym_or(e["set_point"] != old["set_point"],
                                                                           sym_and(sym_not(e["temp_unavailable"]), e["temp_raw"] != old["temp_raw"]))))
            else:
                keys = ["power_code", "method_code", "damper_percentage", "battery_code", "has_sensor", "spill", "set_point_raw"]
                cond = [e[k] != old[k] for k in keys]
                cond.append(sym_and(e["has_sensor"] == 1, sym_not(e["temp_unavailable"]), e["temp_raw"] != old["temp_raw"]))
            exposed_changed = sym_or(*cond)
            identical = sym_and(*[e[k] == old[k] for k in e])
            inst.zone_status[tz] = r
            calls = push(con.zone_status_frame(pid=0x61, only=[tz]))
        elif kind == "timer":
            old = inst.timers[ta]
            tm = (ctx.bits("on_dis", 1), ctx.int("on_h", 0, 23), ctx.int("on_m", 0, 59), ctx.bits("off_dis", 1), ctx.int("off_h", 0, 23), ctx.int("off_m", 0, 59))
            # exposed: next_quick_timer() = None when disabled, else (hour, minute)
            def vis(t, o):
                return sym_or(t[0] != o[0], sym_and(t[0] == 0, sym_or(t[1] != o[1], t[2] != o[2])))
            exposed_changed = sym_or(vis(tm[0:3], old[0:3]), vis(tm[3:6], old[3:6]))
            identical = sym_and(*[a == b for a, b in zip(tm, old)])
            inst.timers[ta] = tm
            calls = push(con.timer_status_frame(pid=0x61))
        elif kind in ("error", "error_silent"):
            # the error code appears: AC subscribers hear about the status change, then about the error text
            rec = list(inst.ac_status[ta])
            rec[6], rec[7] = 0x12, 0x34
            inst.ac_status[ta] = rec
            exposed_changed, identical = True, False
            calls = push(con.ac_status_frame(pid=0x61, only=[ta]))
        else:
            upd = ctx.bits("upd", 1)
            same_text = bool(ctx.choice("same_text", 2))
            inst.version = (False, "1.2.3" if same_text else "1.2.4")
            raw = con.version_frame(pid=0x61)
            hl = framing.header_len(g.n)
            data = list(raw[hl:-2])
            data[2] = upd
            exposed_changed = sym_or(upd != 0, not same_text)
            identical = sym_and(upd == 0, same_text)
            ident = at.airtouch_id
            calls = push(con.frame(0x1F, data, pid=0x61))
        names = [c[0] for c in calls]
        ec, idn = _b(exposed_changed), _b(identical)
        main = {"ac": "ac_general", "timer": "ac_general", "error": "ac_general", "error_silent": "ac_general", "zone": "zone", "version": "airtouch"}[kind]
        if ec:
            exp_n = 1 if expect_probe else 0
            if kind == "error":
                ok_n = names.count(main) >= exp_n if expect_probe else names.count(main) == 0
            else:
                ok_n = names.count(main) == exp_n
            ctx.check(ok_n, "change_notifies" if expect_probe else "unsubscribe_stops", detail=dict(detail, calls=calls))
            ctx.check(names.count(main) <= (2 if kind == "error" else 1), "double_subscribe_once", detail=dict(detail, calls=calls))
            ctx.check(all(c[1] == (tz if kind == "zone" else ident) for c in calls if c[0] in (main, "raiser")), "right_identifier", detail=dict(detail, calls=calls))
            ctx.check("bound" in names, "change_notifies", detail=dict(detail, calls=calls, why="a subscriber given as a bound method was not called"))
            if kind in ("ac", "timer", "error", "error_silent"):
                exp_state = 0 if state_arr == "unsub" else 1
                ok_state = (names.count("ac_state") == exp_state) if kind in ("ac", "timer") else ("ac_state" in names)
                ctx.check(ok_state and "other_ac" not in names, "change_notifies" if exp_state else "unsubscribe_stops",
                          detail=dict(detail, calls=calls, state_arrangement=state_arr, why="AC-state subscriber / other AC"))
            if kind in ("ac", "timer"):
                ctx.check(names.count("dual_state") == 1 and names.count("dual_gen") == 1, "unsubscribe_stops",
                          detail=dict(detail, calls=calls, why="callback registered in both roles, withdrawn from one"))
            if kind == "zone":
                ctx.check("dual_gen" in names and "dual_state" not in names, "zone_reaches_ac_general_only",
                          detail=dict(detail, calls=calls, why="callback registered in both roles, withdrawn from one"))
            if kind == "zone":
                ctx.check("ac_general" in names and "ac_state" not in names and "other_ac" not in names
                          and all(c[1] == (tz if c[0] in ("zone", "raiser", "bound") else ta) for c in calls if not c[0].startswith("dual")),
                          "zone_reaches_ac_general_only", detail=dict(detail, calls=calls))
            if with_raiser:
                ctx.check("raiser" in names and (names.count(main) >= 1 or not expect_probe), "raiser_does_not_starve", detail=dict(detail, calls=calls))
        elif idn:
            ctx.check(calls == [], "identical_is_silent", detail=dict(detail, calls=calls))
        # ---- frame 3: a fixed different report: reception and notification still work ------------------
        same3 = False
        if kind in ("ac", "error", "error_silent"):
            prev = inst.ac_status[ta]
            err3 = 0x1234 if kind == "error_silent" else 0        # error_silent: the set-point changes while the error persists
            inst.ac_status[ta] = (r4.build_ac_status(ta, 0, 2, 5, 1, 0, 17, 555, err3) if g.n == 4 else r5.build_ac_status(ta, 2, 2, 5, 33, 1, 1, 1, 0, 555, err3))
            ra, rb = T.ac_status_record(prev), T.ac_status_record(inst.ac_status[ta])
            same3 = _b(sym_and(*[ra[k] == rb[k] for k in ra]))     # identical in every decoded field (unused bits may differ)
            calls3 = push(con.ac_status_frame(pid=0x62, only=[ta]))
        elif kind == "zone":
            prev = inst.zone_status[tz]
            inst.zone_status[tz] = (r4.build_group_status(tz, 3, 0, 7, 1, 1, 9, 1, 555, 1) if g.n == 4 else r5.build_zone_status(tz, 3, 0, 7, 33, 1, 555, 1, 1))
            rd = r4.group_status_record if g.n == 4 else r5.zone_status_record
            ra, rb = rd(prev), rd(inst.zone_status[tz])
            same3 = _b(sym_and(*[ra[k] == rb[k] for k in ra]))
            calls3 = push(con.zone_status_frame(pid=0x62, only=[tz]))
        elif kind == "timer":
            inst.timers[ta] = (0, 23, 59, 0, 22, 58)
            calls3 = push(con.timer_status_frame(pid=0x62))
        else:
            inst.version = (True, "7.7.7")
            calls3 = push(con.version_frame(pid=0x62))
        n3 = [c[0] for c in calls3]
        # frame 3 differs from whatever frame 2 was unless frame 2 happened to equal it (excluded by the fixed odd values for AC/zone)
        if kind in ("timer",):
            same3 = _b(sym_and(*[a == b for a, b in zip(inst.timers[ta], tm)]))
        if not same3:
            ctx.check((main in n3) == expect_probe, "later_frames_still_notify", detail=dict(detail, calls=calls3))
        ctx.check(len(rig.net.conns) == n_conn and not rig.task_failures(), "later_frames_still_notify", detail="connection disturbed / task failure")
        for lab in expect_labels("quick"):
            ctx.reach(lab)
