"""C13 — reception is independent of TCP segmentation.

The real _read loop on a stream of 1..3 frames cut at up to three solver-chosen offsets
(0 <= c1 <= c2 <= c3 <= len). The reader compares 'bytes delivered so far >= bytes needed'
symbolically, so one path is one class of cut positions relative to the read boundaries
(prefix / length field / payload / check bytes of every frame): all split points are covered.
"""
from __future__ import annotations

import asyncio

from sx.net import SegmentedReader

from . import catalog
from .common import Gen, Rig

PID = "C13"
WALL_BUDGET = {"quick": 600, "thorough": 3600}
SAMPLE_RATE = {"quick": 0.05, "thorough": 0.005}
CHUNK = 48
STUBS = ["asyncio.open_connection -> FakeNet", "StreamReader -> SegmentedReader (readexactly contract over symbolic cut offsets); concrete replay uses the real asyncio.StreamReader",
         "loop -> VLoop"]
OUTSIDE = ["an end of stream anywhere but behind the last frame (C14 has the mid-frame EOF)", "more cuts than the bound (quick 3; thorough up to 6)", "pauses between segments longer than 400 s", "frame content is concrete (catalogue frames); symbolic content is C03/C05/C17"]
ASSUMPTIONS = []


def bounds(tier):
    if tier == "quick":
        return {"cuts": 3, "frames": [1, 2, 3], "catalogue_entries": "every third of the 18 per generation as first frame"}
    return {"cuts": "3 (all singles and pairs), 5 (three-frame streams), 6 (two four-frame streams per generation)", "frames": [1, 2, 3, 4],
            "catalogue_entries": "all 18 per generation as first frame; every ordered pair (c, c+k) for k in 1,5,11"}


def instances(tier):
    out = []
    for g in (4, 5):
        step = 3 if tier == "quick" else 1
        for c in range(0, 18, step):
            out.append({"gen": g, "seq": [c]})
            out.append({"gen": g, "seq": [c, (c + 5) % 18]})
        out.append({"gen": g, "seq": [4, 17, 1]})
        out.append({"gen": g, "seq": [2, 5, 8]})
        # long frames (payload > 128 and > 255 bytes: all 16 zones named / reported), alone and behind a short one; free gaps
        out.append({"gen": g, "seq": ["long_names"], "gaps": True})
        out.append({"gen": g, "seq": [4, "long_status"], "gaps": True})
        out.append({"gen": g, "seq": [2, 5], "gaps": True})
        # the console repeats a frame byte for byte (same packet id): it is delivered as often as it was sent
        out.append({"gen": g, "seq": [4, 4, 8, 4], "same_pid": True})
        # the console closes the connection behind the stream: the FIN rides on the last segment, or follows it a little later
        for eof in ("with_last", "later"):
            out.append({"gen": g, "seq": [4, 17, 1], "eof": eof})
            out.append({"gen": g, "seq": [8], "eof": eof})
        if tier == "thorough":
            for c in range(18):
                for k in (1, 11):
                    out.append({"gen": g, "seq": [c, (c + k) % 18]})
            for seq in ([11, 13, 16], [4, 17, 1], [2, 5, 8], [0, 9, 14], [7, 3, 12], [15, 6, 10]):
                out.append({"gen": g, "seq": seq, "cuts": 5})
            out.append({"gen": g, "seq": [4, 17, 1, 8], "cuts": 6})
            out.append({"gen": g, "seq": [13, 2, 16, 5], "cuts": 6})
    return out


def expect_labels(tier):
    return ["same_messages_once_in_order"]


def run(ctx, p):
    g = Gen(p["gen"])
    cat = catalog.catalog(g)
    frames = []
    msgs = []
    for i, c in enumerate(p["seq"]):
        e = _long_entry(g.n, c) if isinstance(c, str) else cat[c]
        # console -> client direction: to 0xB0, from 0x80/0x90
        from ref import framing
        same = p.get("same_pid")
        data = e[3](1 if same else i + 1)
        frames.append(framing.frame(g.n, 0xB0, catalog.to_address(e[2]), 40 if same else 40 + i, e[2], data))
        # expected = what the unsegmented frame decodes to (whole-payload decode through the registry)
        hdr = g.Header(0xB0, catalog.to_address(e[2]), 40 if same else 40 + i, e[2], len(data))
        msgs.append(g.reg.get_decoder(e[2]).decode(bytes(data), hdr).message)
    stream = bytes(b for f in frames for b in f)
    n = len(stream)
    k_cuts = p.get("cuts", 3)
    cs = [ctx.int(f"c{i + 1}", 0, n) for i in range(k_cuts)]
    for a, b in zip(cs, cs[1:]):
        ctx.assume(a <= b)
    with Rig(ctx, g) as rig:
        readers = []

        def factory(loop, idx):
            r = SegmentedReader(loop, stream) if ctx.symbolic else asyncio.StreamReader(loop=loop)
            readers.append(r)
            return r

        rig.net.reader_factory = factory

        def deliver(k):
            r = readers[0]
            cuts = cs + [n]
            if ctx.symbolic:
                r.deliver_up_to(cuts[k])
            else:
                prev = 0 if k == 0 else cuts[k - 1]
                if cuts[k] > prev:
                    r.feed_data(stream[prev:cuts[k]])
            if k == k_cuts and p.get("eof") == "with_last":
                r.feed_eof()

        rig.spawn(rig.sock.open_socket())
        if p.get("gaps"):
            # the pauses between segments are free too (up to 400 s each): reception does not depend on how long the rest takes
            t = 1.0
            for k in range(k_cuts + 1):
                rig.loop.vt_call_at(t, (lambda k=k: deliver(k)))
                t = t + ctx.real(f"gap{k}", 0, 400, lo_strict=True)
            rig.loop.vt_run(t + 2.5)
        else:
            for k in range(k_cuts + 1):
                rig.loop.vt_call_at(1.0 + k, (lambda k=k: deliver(k)))
            if p.get("eof") == "later":
                rig.loop.vt_call_at(1.5 + k_cuts, lambda: readers[0].feed_eof())
            rig.loop.vt_run(k_cuts + 3.5)
        got = [(h.packet_id, m) for _, h, m in rig.received]
        ctx.observe("delivered", len(got))
        exp = [(40 if p.get("same_pid") else 40 + i, m) for i, m in enumerate(msgs)]
        ok = len(got) == len(exp) and all(a[0] == b[0] and a[1] == b[1] for a, b in zip(got, exp))
        ctx.check(ok, "same_messages_once_in_order", detail={"delivered": len(got), "expected": len(exp)})
        # only the console's own close may cost the connection (and then exactly one new one replaces it)
        conns_ok = len(rig.net.conns) <= 2 if p.get("eof") else len(rig.net.conns) == 1
        ctx.check(conns_ok and not rig.task_failures(), "same_messages_once_in_order", detail="connection was reset / task failure")


def _long_entry(gen, which):
    """Catalogue-shaped entry (name, maker, type, payload builder) for a frame with a long payload, built with the reference builders."""
    from ref import at4 as r4
    from ref import at5 as r5
    from ref import framing as fr
    if which == "long_names":
        if gen == 4:
            data = fr.ext(0xFF12, [x for n in range(16) for x in r4.build_group_name(n, f"Zone {n:02d}x")])          # 2 + 16*9 = 146 bytes
        else:
            data = fr.ext(0xFF13, [x for n in range(16) for x in r5.build_zone_name(n, f"Zone number {n:02d} name")])  # 2 + 16*21 = 338 bytes
        return ("long_names", None, 0x1F, (lambda i, d=data: list(d)))
    if gen == 4:
        data = [x for n in range(16) for x in r4.build_group_status(n, 1, 1, 5 * (n % 20), 0, 1, 20 + n % 8, 1, 700 + n, 0)] \
            + [x for n in range(8) for x in r4.build_group_status(n, 0, 0, 50, 0, 0, 22, 0, 0, 0)]                       # 24 records: 144 bytes
        return ("long_status", None, 0x2B, (lambda i, d=data: list(d)))
    recs = [x for n in range(16) for x in r5.build_zone_status(n, 1, 1, 5 * (n % 20), 100 + n, 1, 700 + n, 0, 0)]
    data = fr.c0(0x21, [], 8, 16, recs)                                                                                 # 8 + 128 = 136 bytes
    return ("long_status", None, 0xC0, (lambda i, d=data: list(d)))


def _same(a, b):
    if a == b:
        return True
    # count-0 / request identification of same-id pairs (see C03)
    ia, ib = getattr(a, "sub_message", a), getattr(b, "sub_message", b)
    return type(ia).__name__.endswith("Request") and type(ib).__name__.endswith("Request") and type(ia) is type(ib)
