"""C14 — state is refreshed after every reconnection and after AT4 group silence.

(a) initialised API objects; the console drops the connection at a solver-chosen instant, its state
    moves while the client is away (free record bytes), reconnect attempts are refused a solver-chosen
    number of times; on the new connection the first requests must be AC status and zone/group status,
    the getters converge to the new report, and an unchanged refresh notifies nobody.
(b) AirTouch 4: a group status request whenever none has been received for 300 s, for as long as the
    silence lasts; the instant of the last unsolicited group status is a z3 Real.
"""
from __future__ import annotations

from ref import at4 as r4
from ref import at5 as r5
from sx.values import SymBool, sym_and

from . import c10
from .c12 import Rec
from .common import ApiRig, Gen
from .console import Installation

PID = "C14"
WALL_BUDGET = {"quick": 900, "thorough": 5400}
SAMPLE_RATE = {"quick": 0.02, "thorough": 0.002}
CHUNK = 32
STUBS = ["asyncio.open_connection -> FakeNet (refuses a chosen number of reconnect attempts)", "scripted reference console", "loop -> VLoop"]
OUTSIDE = ["more than one outage per history (quick) / two (thorough)", "more than three periods of group silence", "outages longer than 3 refused attempts (6 s)"]
ASSUMPTIONS = ["'immediately' = the two refresh requests are the first frames written on the new connection"]


def bounds(tier):
    return {"outage_instant": "[1,200] symbolic", "refused_attempts": [0, 1, 3], "silence_periods": 2 if tier == "quick" else 3}


def instances(tier):
    out = []
    for g in (4, 5):
        for what in ("ac", "zone", "unchanged"):
            out.append({"kind": "reconnect", "gen": g, "what": what})
        # the loss shows up as a clean EOF, or as an EOF in the middle of a frame (half a status frame was received)
        out.append({"kind": "reconnect", "gen": g, "what": "ac", "how": "eof"})
        out.append({"kind": "reconnect", "gen": g, "what": "zone", "how": "eof_midframe"})
    for g in (4, 5):
        out.append({"kind": "half_open", "gen": g, "retries": "zero"})
        out.append({"kind": "half_open", "gen": g, "retries": "some"})
    if tier == "thorough":
        for g in (4, 5):
            for what in ("ac", "zone"):
                out.append({"kind": "reconnect", "gen": g, "what": what, "second_outage": True})
    n = 2 if tier == "quick" else 3
    out.append({"kind": "group_silence", "gen": 4, "periods": n, "unsolicited": 0})
    out.append({"kind": "group_silence", "gen": 4, "periods": n, "unsolicited": 1})
    out.append({"kind": "group_silence", "gen": 4, "periods": n, "unsolicited": 2})
    out.append({"kind": "group_silence_answered", "gen": 4})
    out.append({"kind": "group_silence_reconnect", "gen": 4})
    out.append({"kind": "group_silence_outage", "gen": 4})     # the 300 s deadline falls into an outage with a (nearly) full buffer
    for g in (4, 5):
        out.append({"kind": "flapping", "gen": g})
        out.append({"kind": "held_commands", "gen": g})
        out.append({"kind": "error_text_lost", "gen": g})
        out.append({"kind": "stale_buffered_frame", "gen": g})
        out.append({"kind": "refresh_write_fails", "gen": g})      # the new connection dies at the refresh's own first write
    return out


def expect_labels(tier):
    return ["refresh.requests_first", "refresh.model_converges", "refresh.unchanged_is_silent", "at4.group_poll_after_300s"]


def _b(x):
    return bool(x) if isinstance(x, SymBool) else x


def run(ctx, p):
    if p["kind"] == "reconnect":
        return _reconnect(ctx, p)
    if p["kind"] == "half_open":
        return _half_open(ctx, p)
    if p["kind"] == "group_silence_reconnect":
        return _group_silence_reconnect(ctx, p)
    if p["kind"] == "group_silence_outage":
        return _group_silence_outage(ctx, p)
    if p["kind"] == "refresh_write_fails":
        return _refresh_write_fails(ctx, p)
    if p["kind"] == "flapping":
        return _flapping(ctx, p)
    if p["kind"] == "held_commands":
        return _held_commands(ctx, p)
    if p["kind"] == "error_text_lost":
        return _error_text_lost(ctx, p)
    if p["kind"] == "stale_buffered_frame":
        return _stale_buffered_frame(ctx, p)
    return _group_silence(ctx, p)


def _reconnect(ctx, p):
    g = Gen(p["gen"])
    inst = Installation.simple(g.n, n_acs=2, zones_per_ac=2)
    t_drop = ctx.real("t_drop", 1, 200)
    refused = (0, 1, 3)[ctx.choice("refused", 3)]
    log = []
    with ApiRig(ctx, g, inst) as rig:
        con = rig.console
        state = {"left": None}

        def on_connect(net, n):
            if n == 0:
                return ("accept", 0)
            if state["left"] is None:
                state["left"] = refused
            if state["left"] > 0:
                state["left"] -= 1
                return ("refuse",)
            return ("accept", 0)

        rig.net.on_connect = on_connect
        rig.start()
        rig.run(0.5)
        ctx.check(rig.init_result is True, "refresh.requests_first", detail="handshake failed")
        for a in rig.at.air_conditioners:
            a.subscribe(Rec(f"ac{a.ac_id}", log))
            for z in a.zones:
                z.subscribe(Rec(f"zone{z.zone_id}", log))
        # state moves while the client is away
        e_ac = e_zone = None
        if p["what"] == "ac":
            r, e_ac = c10._sym_ac_record(ctx, g.n, 1, "n")
            ctx.assume(e_ac["error_code"] == 0)
            inst.ac_status[1] = r
        elif p["what"] == "zone":
            r, e_zone = c10._sym_zone_record(ctx, g.n, 2, "n")
            inst.zone_status[2] = r

        def drop():
            n_before["n"] = len(con.requests)
            c = rig.net.current()
            if c is not None:
                how = p.get("how", "reset")
                if how == "reset":
                    c.reset()
                elif how == "eof":
                    c.eof()
                else:
                    raw = [int(b) for b in con.ac_status_frame(pid=0x6A)]      # (the AC records are concrete in this instance)
                    c.send(bytes(raw[: len(raw) // 2]))
                    c.eof()

        n_before = {"n": None}
        rig.loop.vt_call_at(t_drop, drop)
        rig.run(t_drop + 2.0 * refused + 1.5)
        detail = {"what": p["what"], "refused": refused}
        ctx.check(len(rig.net.conns) == 2 and rig.net.max_open <= 1, "refresh.requests_first", detail=dict(detail, conns=len(rig.net.conns)))
        # requests written on the new connection, in order
        t_new = rig.net.conns[1].opened_at
        new_reqs = [(t, k) for t, k, _ in con.requests[n_before["n"]:]]
        kinds = [k for _, k in new_reqs]
        ctx.observe("new_connection_requests", kinds[:3])
        ctx.check(sorted(kinds[:2]) == ["ac_status", "zone_status"], "refresh.requests_first", detail=dict(detail, kinds=kinds))
        ctx.check(all(_b(t == t_new) for t, _ in new_reqs[:2]), "refresh.requests_first", detail=dict(detail, why="not immediately"))
        # convergence
        if e_ac is not None:
            getter = c10.AC_GETTERS[ctx.choice("getter", len(c10.AC_GETTERS) - 1)]
            c10._check_ac_getter(ctx, g.n, rig.ac(1), e_ac, inst.acs[1], getter, label="refresh.model_converges")
        elif e_zone is not None:
            getter = c10.ZONE_GETTERS[ctx.choice("getter", len(c10.ZONE_GETTERS))]
            c10._check_zone_getter(ctx, g.n, rig.zone(2), e_zone, getter, label="refresh.model_converges")
        else:
            ctx.check(log == [], "refresh.unchanged_is_silent", detail=dict(detail, calls=log))
        ctx.check(not rig.task_failures(), "refresh.requests_first", detail="unhandled exception")
        if p.get("second_outage"):
            # a second loss at a free instant after the recovery, the state has moved again (fixed different report):
            # the refresh happens again and the model converges again
            t2 = t_drop + 2.0 * refused + 1.5 + ctx.real("t2", 1, 100)
            state["left"] = 0
            if p["what"] == "ac":
                inst.ac_status[1] = (r4.build_ac_status(1, 0, 2, 5, 1, 0, 17, 555, 0) if g.n == 4 else r5.build_ac_status(1, 2, 2, 5, 33, 1, 1, 1, 0, 555, 0))
            else:
                inst.zone_status[2] = (r4.build_group_status(2, 3, 0, 7, 1, 1, 9, 1, 555, 1) if g.n == 4 else r5.build_zone_status(2, 3, 0, 7, 33, 1, 555, 1, 1))
            mark = {}

            def drop2():
                mark["n"] = len(con.requests)
                c = rig.net.current()
                if c is not None:
                    c.reset()

            rig.loop.vt_call_at(t2, drop2)
            rig.run(t2 + 1.5)
            kinds2 = [k for _, k, _ in con.requests[mark.get("n", 0):]]
            ctx.check(len(rig.net.conns) == 3 and rig.net.max_open <= 1 and sorted(kinds2[:2]) == ["ac_status", "zone_status"], "refresh.requests_first",
                      detail=dict(detail, second=True, kinds=kinds2, conns=len(rig.net.conns)))
            if p["what"] == "ac":
                a1 = rig.ac(1)
                ctx.check(a1.current_temperature == 5.5 and a1.target_temperature == (17 if g.n == 4 else 13.3), "refresh.model_converges",
                          detail=dict(detail, second=True, temp=str(a1.current_temperature), target=str(a1.target_temperature)))
            else:
                z2 = rig.zone(2)
                ctx.check(z2.current_damper_percentage == 7 and z2.current_temperature == 5.5, "refresh.model_converges",
                          detail=dict(detail, second=True, damper=str(z2.current_damper_percentage), temp=str(z2.current_temperature)))
        for lab in expect_labels("quick"):
            ctx.reach(lab)


def _group_silence(ctx, p):
    g = Gen(4)
    inst = Installation.simple(4, n_acs=1, zones_per_ac=2)
    with ApiRig(ctx, g, inst) as rig:
        con = rig.console
        rig.start()
        rig.run(0.5)
        ctx.check(rig.init_result is True, "at4.group_poll_after_300s", detail="handshake failed")
        n0 = len(con.requests)
        if p["kind"] == "group_silence_answered":
            # the console answers each poll: the next poll comes 300 s after that answer
            rig.run(950.0)
            polls = [t for t, k, _ in con.requests[n0:] if k == "zone_status"]
            ctx.check(len(polls) == 3 and polls[0] == 300 and polls[1] == 600 and polls[2] == 900, "at4.group_poll_after_300s",
                      detail={"polls": [str(t) for t in polls]})
            for lab in expect_labels("quick"):
                ctx.reach(lab)
            return
        con.silent.add("zone_status")        # the console has stopped publishing group status and ignores the polls
        periods = p["periods"]
        horizon = 300.0 * periods + 150.0
        last = 0
        pushes = []
        for i in range(p["unsolicited"]):
            s = ctx.real(f"s{i}", 1, 280) if i == 0 else pushes[-1] + ctx.real(f"s{i}", 1, 280)
            pushes.append(s)
        for i, s in enumerate(pushes):
            rig.loop.vt_call_at(s, (lambda i=i: con.push(con.zone_status_frame(pid=0x70 + i))))
        if pushes:
            last = pushes[-1]
            for k in range(1, periods + 2):
                ctx.assume(last + 300 * k != horizon)
        rig.run(horizon)
        polls = [t for t, k, _ in con.requests[n0:] if k == "zone_status"]
        exp = []
        k = 1
        while True:
            t = last + 300 * k
            if _b(t > horizon):
                break
            exp.append(t)
            k += 1
        ctx.observe("polls", len(polls))
        ctx.check(len(polls) == len(exp), "at4.group_poll_after_300s", detail={"polls": [str(t) for t in polls], "expected": [str(t) for t in exp]})
        ctx.check(sym_and(*[a == b for a, b in zip(polls, exp)]), "at4.group_poll_after_300s", detail={"polls": [str(t) for t in polls]})
        ctx.check(not rig.task_failures() and len(rig.net.conns) == 1, "at4.group_poll_after_300s", detail="connection disturbed")
        for lab in expect_labels("quick"):
            ctx.reach(lab)


def _group_silence_reconnect(ctx, p):
    """AT4, the console is silent about groups (it ignores the polls and the refresh request); the link is lost and
    re-established at a free instant: the 300 s polls keep counting from the last group status *received*."""
    g = Gen(4)
    inst = Installation.simple(4, n_acs=1, zones_per_ac=2)
    t_r = ctx.real("t_r", 1, 280)
    with ApiRig(ctx, g, inst) as rig:
        con = rig.console
        rig.start()
        rig.run(0.5)
        ctx.check(rig.init_result is True, "at4.group_poll_after_300s", detail="handshake failed")
        n0 = len(con.requests)
        con.silent.add("zone_status")
        rig.loop.vt_call_at(t_r, lambda: rig.net.current().reset())
        rig.run(950.0)
        reqs = [t for t, k, _ in con.requests[n0:] if k == "zone_status"]
        ctx.observe("requests", len(reqs))
        exp = [t_r, 300, 600, 900]           # the refresh on the new connection, then the polls
        ok = len(reqs) == 4 and _b(sym_and(*[a == b for a, b in zip(reqs, exp)]))
        ctx.check(ok, "at4.group_poll_after_300s", detail={"requests": [str(t) for t in reqs], "expected": [str(t) for t in exp]})
        ctx.check(len(rig.net.conns) == 2 and not rig.task_failures(), "refresh.requests_first", detail="connections / task failure")
    for lab in expect_labels("quick"):
        ctx.reach(lab)


def _group_silence_outage(ctx, p):
    """AT4, the console is silent about groups; the link is down from t=200 until a free instant after the 300 s deadline,
    and nine or ten commands (all the buffer holds) are accepted just before the deadline. For as long as the silence lasts
    the request is repeated: after the link is back there is never a stretch of more than 300 s without one."""
    g = Gen(4)
    inst = Installation.simple(4, n_acs=1, zones_per_ac=2)
    t_back = ctx.real("t_back", 301, 325)
    n_held = (9, 10)[ctx.choice("held", 2)]
    horizon = 1250.0
    with ApiRig(ctx, g, inst) as rig:
        con = rig.console
        rig.net.on_connect = lambda net, n: (("accept", 0) if (n == 0 or _b(rig.loop.time() >= t_back)) else ("refuse",))
        rig.start()
        rig.run(0.5)
        ctx.check(rig.init_result is True, "at4.group_poll_after_300s", detail="handshake failed")
        con.silent.add("zone_status")
        rig.loop.vt_call_at(200.0, lambda: rig.net.current().reset())
        ac = rig.ac(0)

        async def cmds():
            for i in range(n_held):
                try:
                    await ac.set_target_temperature(20 + i % 6)
                except Exception:  # noqa: BLE001
                    pass

        rig.loop.vt_call_at(295.0, lambda: rig.spawn(cmds()))
        rig.run(299.0)
        n0 = len(con.requests)
        rig.run(horizon)
        reqs = [t for t, k, _ in con.requests[n0:] if k == "zone_status"]
        ctx.observe("requests", len(reqs))
        detail = {"held": n_held, "requests": [str(t) for t in reqs], "conns": len(rig.net.conns)}
        ok = len(reqs) >= 1 and _b(reqs[0] <= t_back + 2.5)
        for a, b in zip(reqs, reqs[1:]):
            ok = ok and _b(b - a <= 300)
        ok = ok and len(reqs) >= 1 and _b(reqs[-1] >= horizon - 300)
        ctx.check(ok, "at4.group_poll_after_300s", detail=detail)
        ctx.check(not rig.task_failures(), "at4.group_poll_after_300s", detail="unhandled exception in a client task")
    for lab in expect_labels("quick"):
        ctx.reach(lab)


def _refresh_write_fails(ctx, p):
    """The link is lost at a free instant; the console accepts the next connection, but that connection is reset at the first
    (or second, solver-chosen) write made on it - the refresh requests themselves. The client connects once more, asks for AC
    and zone status again, and the model converges on what the console reports."""
    g = Gen(p["gen"])
    inst = Installation.simple(g.n, n_acs=2, zones_per_ac=2)
    t_drop = ctx.real("t_drop", 1, 200)
    which = 1 + ctx.choice("failing_write", 2)
    with ApiRig(ctx, g, inst) as rig:
        con = rig.console
        rig.net.on_drain = lambda conn, n: (ConnectionResetError("reset at write") if (conn.index == 1 and n == which) else None)
        rig.start()
        rig.run(0.5)
        ctx.check(rig.init_result is True, "refresh.requests_first", detail="handshake failed")
        inst.zone_status[2] = (r4.build_group_status(2, 3, 0, 7, 1, 1, 9, 1, 555, 1) if g.n == 4 else r5.build_zone_status(2, 3, 0, 7, 33, 1, 555, 1, 1))
        rig.loop.vt_call_at(t_drop, lambda: rig.net.current().reset())
        rig.run(t_drop + 12.0)
        detail = {"failing_write": which, "conns": len(rig.net.conns), "requests": con.kinds()[-6:]}
        ctx.observe("conns", len(rig.net.conns))
        ctx.check(len(rig.net.conns) >= 3 and rig.net.max_open <= 1 and rig.at._socket.is_connected, "refresh.requests_first", detail=dict(detail, why="no healthy connection after the failed one"))
        last = rig.net.conns[-1]
        kinds = [k for t, k, _ in con.requests if _b(t >= last.opened_at)]
        ctx.check(sorted(kinds[:2]) == ["ac_status", "zone_status"], "refresh.requests_first", detail=dict(detail, kinds=kinds))
        z2 = rig.zone(2)
        ctx.check(z2.current_damper_percentage == 7 and z2.current_temperature == 5.5, "refresh.model_converges", detail=dict(detail, damper=str(z2.current_damper_percentage)))
        ctx.check(not rig.task_failures(), "refresh.requests_first", detail="unhandled exception")
    for lab in expect_labels("quick"):
        ctx.reach(lab)


def _stale_buffered_frame(ctx, p):
    """Two status frames arrive in one segment; a subscriber takes 125 ms over the first, so the second stays buffered on the
    old connection. Meanwhile a command hits a write error (free instant): the client reconnects and refreshes - the
    console has moved on. The model shows the refreshed state, not the frame left over on the abandoned connection."""
    import asyncio
    import importlib
    A = importlib.import_module("pyairtouch.api")
    g = Gen(p["gen"])
    inst = Installation.simple(g.n, n_acs=2, zones_per_ac=2)
    t_cmd = 1.0 + ctx.real("dt", 0, 0.125, lo_strict=True)
    with ApiRig(ctx, g, inst) as rig:
        con = rig.console
        armed = {"on": False}
        rig.net.on_drain = lambda conn, n: (ConnectionResetError("write fault") if armed.pop("on", False) else None)
        rig.start()
        rig.run(0.5)
        ctx.check(rig.init_result is True, "refresh.model_converges", detail="handshake failed")

        async def slow(_id):
            await asyncio.sleep(0.125)

        rig.zone(0).subscribe(slow)

        def zrec(n, pct):
            return r4.build_group_status(n, 1, 1, pct, 0, 1, 22, 1, 730, 0) if g.n == 4 else r5.build_zone_status(n, 1, 1, pct, 120, 1, 730, 0, 0)

        def burst():
            keep = dict(inst.zone_status)
            inst.zone_status = {0: zrec(0, 45)}
            a = con.zone_status_frame(pid=0x6B, only=[0])
            inst.zone_status = {2: zrec(2, 95)}                 # the frame that stays buffered: zone 2 at 95 %
            b = con.zone_status_frame(pid=0x6C, only=[2])
            inst.zone_status = keep
            inst.zone_status[0] = zrec(0, 45)
            inst.zone_status[2] = zrec(2, 10)                   # by the time of the refresh the console reports zone 2 at 10 %
            rig.net.current().send(bytes(int(x) for x in a) + bytes(int(x) for x in b))

        async def cmd():
            armed["on"] = True
            try:
                await rig.ac(0).set_power(A.AcPowerControl.TURN_ON)
            except Exception:  # noqa: BLE001
                pass

        rig.loop.vt_call_at(1.0, burst)
        rig.loop.vt_call_at(t_cmd, lambda: rig.spawn(cmd()))
        rig.run(t_cmd + 5.0)
        z2 = rig.zone(2)
        detail = {"zone2_damper": str(z2.current_damper_percentage), "conns": len(rig.net.conns), "requests": con.kinds()[-6:]}
        ctx.observe("damper", z2.current_damper_percentage)
        ctx.check(len(rig.net.conns) == 2, "refresh.requests_first", detail=detail)
        ctx.check(z2.current_damper_percentage == 10, "refresh.model_converges", detail=detail)
        ctx.check(not rig.task_failures(), "refresh.requests_first", detail="unhandled exception")
    for lab in expect_labels("quick"):
        ctx.reach(lab)


def _error_text_lost(ctx, p):
    """An AC reports an error; the client asks for the error text; the link is lost at a free instant before the console's
    answer (which takes 125 ms) has arrived. After the reconnection the model converges to what the console reports then:
    the error code and its text."""
    g = Gen(p["gen"])
    inst = Installation.simple(g.n, n_acs=2, zones_per_ac=2)
    inst.errors[0] = "ER: 0005"
    t_drop = 1.0 + ctx.real("dt", 0, 0.125, lo_strict=True)
    with ApiRig(ctx, g, inst) as rig:
        con = rig.console
        rig.start()
        rig.run(0.5)
        ctx.check(rig.init_result is True, "refresh.model_converges", detail="handshake failed")
        orig_answer = con._answer

        def slow_answer(conn, kind, fr):
            if kind == "error":
                rig.loop.call_later(0.125, orig_answer, conn, kind, fr)
            else:
                orig_answer(conn, kind, fr)

        con._answer = slow_answer
        rec = list(inst.ac_status[0])
        rec[6], rec[7] = 0x00, 0x05
        inst.ac_status[0] = rec
        rig.loop.vt_call_at(1.0, lambda: con.push(con.ac_status_frame(pid=0x68, only=[0])))
        rig.loop.vt_call_at(t_drop, lambda: rig.net.current().reset())
        rig.run(t_drop + 5.0)
        ei = rig.ac(0).error_info
        detail = {"error_info": repr(ei), "conns": len(rig.net.conns), "requests": con.kinds()[-6:]}
        ctx.observe("error_info", repr(ei))
        ctx.check(ei is not None and ei.code == 5 and ei.description == "ER: 0005", "refresh.model_converges", detail=detail)
        ctx.check(len(rig.net.conns) == 2 and not rig.task_failures(), "refresh.requests_first", detail=detail)
    for lab in expect_labels("quick"):
        ctx.reach(lab)


def _held_commands(ctx, p):
    """Commands were accepted during the outage (a solver-chosen number, up to the ten the buffer holds): the reconnection is
    refreshed all the same - AC status and zone status are requested on the new connection at once, and the model converges."""
    g = Gen(p["gen"])
    inst = Installation.simple(g.n, n_acs=2, zones_per_ac=2)
    n_held = (0, 1, 9, 10)[ctx.choice("held", 4)]
    with ApiRig(ctx, g, inst) as rig:
        con = rig.console
        mode = {"accept": True}
        rig.net.on_connect = lambda net, n: (("accept", 0) if mode["accept"] else ("refuse",))
        rig.start()
        rig.run(0.5)
        ctx.check(rig.init_result is True, "refresh.requests_first", detail="handshake failed")
        mode["accept"] = False
        rig.loop.vt_call_at(1.0, lambda: rig.net.current().reset())
        rig.run(1.25)
        ac = rig.ac(0)

        async def cmds():
            for i in range(n_held):
                try:
                    await ac.set_target_temperature(20 + i % 6)
                except Exception:  # noqa: BLE001
                    pass

        rig.spawn(cmds())
        rig.run(2.0)
        inst.zone_status[2] = (r4.build_group_status(2, 3, 0, 7, 1, 1, 9, 1, 555, 1) if g.n == 4 else r5.build_zone_status(2, 3, 0, 7, 33, 1, 555, 1, 1))
        n0 = len(con.requests)
        mode["accept"] = True
        rig.run(6.5)
        new = [(t, k) for t, k, _ in con.requests[n0:]]
        kinds = [k for _, k in new]
        detail = {"held": n_held, "kinds": kinds, "conns": len(rig.net.conns)}
        ctx.observe("kinds", kinds[:14])
        t_new = rig.net.conns[-1].opened_at
        refresh = [(t, k) for t, k in new if k in ("ac_status", "zone_status")]
        ctx.check(len(rig.net.conns) == 2 and sorted(k for _, k in refresh[:2]) == ["ac_status", "zone_status"] and all(_b(t == t_new) for t, _ in refresh[:2]),
                  "refresh.requests_first", detail=detail)
        ctx.check(kinds.count("ac_ctrl") == n_held, "refresh.requests_first", detail=dict(detail, why="held commands not transmitted once each"))
        z2 = rig.zone(2)
        ctx.check(z2.current_damper_percentage == 7 and z2.current_temperature == 5.5, "refresh.model_converges",
                  detail=dict(detail, damper=str(z2.current_damper_percentage)))
        ctx.check(not rig.task_failures(), "refresh.requests_first", detail="unhandled exception")
    for lab in expect_labels("quick"):
        ctx.reach(lab)


def _flapping(ctx, p):
    """The link is lost, the refresh of the new connection goes unanswered, the link is lost again at a free instant: the
    next connection is refreshed again and the model converges to what the console reports then."""
    g = Gen(p["gen"])
    inst = Installation.simple(g.n, n_acs=2, zones_per_ac=2)
    t2 = ctx.real("t2", 2, 60)
    with ApiRig(ctx, g, inst) as rig:
        con = rig.console
        rig.start()
        rig.run(0.5)
        ctx.check(rig.init_result is True, "refresh.requests_first", detail="handshake failed")
        con.silent.update(("ac_status", "zone_status"))
        rig.loop.vt_call_at(1.0, lambda: rig.net.current().reset())
        rig.run(1.5)
        mark = {}

        def drop2():
            mark["n"] = len(con.requests)
            con.silent.clear()
            inst.zone_status[2] = (r4.build_group_status(2, 3, 0, 7, 1, 1, 9, 1, 555, 1) if g.n == 4 else r5.build_zone_status(2, 3, 0, 7, 33, 1, 555, 1, 1))
            rig.net.current().reset()

        rig.loop.vt_call_at(t2, drop2)
        rig.run(t2 + 1.5)
        kinds = [k for _, k, _ in con.requests[mark.get("n", 0):]]
        detail = {"kinds": kinds, "conns": len(rig.net.conns)}
        ctx.check(len(rig.net.conns) == 3 and sorted(kinds[:2]) == ["ac_status", "zone_status"], "refresh.requests_first", detail=detail)
        z2 = rig.zone(2)
        ctx.check(z2.current_damper_percentage == 7 and z2.current_temperature == 5.5, "refresh.model_converges",
                  detail=dict(detail, damper=str(z2.current_damper_percentage), temp=str(z2.current_temperature)))
        ctx.check(not rig.task_failures(), "refresh.requests_first", detail="unhandled exception")
    for lab in expect_labels("quick"):
        ctx.reach(lab)


def _half_open(ctx, p):
    """The connection loss shows up as a write error (half-open link) on a command: whatever the command's
    retry policy, the client reconnects at once and refreshes."""
    import importlib
    A = importlib.import_module("pyairtouch.api")
    g = Gen(p["gen"])
    inst = Installation.simple(g.n, n_acs=1, zones_per_ac=1)
    t_cmd = ctx.real("t_cmd", 1, 100)
    with ApiRig(ctx, g, inst) as rig:
        con = rig.console
        armed = {"on": False}

        def on_drain(conn, n):
            if armed["on"]:
                armed["on"] = False
                return ConnectionResetError("half-open link")
            return None

        rig.net.on_drain = on_drain
        rig.start()
        rig.run(0.5)
        ctx.check(rig.init_result is True, "refresh.requests_first", detail="handshake failed")
        mark = {}

        async def cmd():
            mark["n"] = len(con.requests)
            armed["on"] = True
            if p["retries"] == "zero":
                await rig.ac(0).set_power(A.AcPowerControl.TOGGLE)
            else:
                await rig.ac(0).set_power(A.AcPowerControl.TURN_ON)

        rig.loop.vt_call_at(t_cmd, lambda: rig.spawn(cmd()))
        rig.run(t_cmd + 3.0)
        kinds = [k for _, k, _ in con.requests[mark["n"]:]]
        times = [t for t, _, _ in con.requests[mark["n"]:]]
        detail = {"retries": p["retries"], "kinds": kinds}
        ctx.check(len(rig.net.conns) == 2 and rig.net.conns[0].client_closed and rig.net.max_open <= 1, "refresh.requests_first",
                  detail=dict(detail, conns=len(rig.net.conns), why="no reconnect after the write error"))
        refresh = [k for k in kinds if k in ("ac_status", "zone_status")]
        ctx.check(sorted(refresh[:2]) == ["ac_status", "zone_status"] and all(_b(t == t_cmd) for t in times), "refresh.requests_first", detail=detail)
        for lab in expect_labels("quick"):
            ctx.reach(lab)
