"""C15 — shutdown is final, leak-free and reversible.

The real API objects (real socket, heartbeat, AT4 poll) in one of several phases — console refusing,
connect in flight, handshake stalled at a chosen step, initialised, command pending on a dead link —
with shutdown() called at a solver-chosen instant. After shutdown() returns the simulated network is
frozen: any connection attempt, open or write is a violation; the loop must go idle (no timer, no ready
handle), sending must raise NotOpenError, every opened transport must be closed. Then (optionally) the
console answers again and a second init() must rebuild the model and the heartbeat.
"""
from __future__ import annotations

import asyncio
import importlib

from ref import at4 as r4
from ref import at5 as r5
from sx.values import SymBool

from . import catalog
from .common import ApiRig, Gen, Rig, socket_mod
from .console import STEPS, Installation

PID = "C15"
WALL_BUDGET = {"quick": 900, "thorough": 5400}
SAMPLE_RATE = {"quick": 0.3, "thorough": 0.1}
CHUNK = 32
STUBS = ["asyncio.open_connection -> FakeNet (frozen after shutdown returns: activity is recorded as late)", "scripted reference console", "loop -> VLoop"]
OUTSIDE = ["an application send() still suspended in drain() when close() is called (the application's own task)", "shutdown() racing a handshake answer: loop-turn offsets beyond 23 turns after the console received the request (the handshake step completes within that window)", "garbage collection of the dropped model objects", "shutdown() called concurrently with another shutdown()/init()"]
ASSUMPTIONS = ["'no timer or task remains' is observed eight loop turns after shutdown() returned (the done-callbacks of just-finished tasks are still queued at the very instant it returns) and again at the horizon: the virtual loop has no pending timer and no ready handle"]


def bounds(tier):
    return {"phases": ["refusing", "connecting", "handshake", "initialised", "pending", "after_failed_init", "backoff"],
            "socket_level_close": ["down_queue", "connecting", "write_suspended", "write_suspended_lost", "backoff", "fault_then_slow_connect", "fault_then_slow_close"],
            "shutdown_instant": "symbolic within the phase's window", "race_with_handshake_answer": "steps 0..5 x 0..23 (thorough also 0..47) loop turns after the request, same instant", "race_other_anchors": "0..23 loop turns after: first connection accepted; link reset with immediate reconnect; a zone status push with subscribers", "idle_horizon_s": 700, "reinit": True,
            "second_shutdown_of_the_new_session": tier == "thorough"}


def instances(tier):
    out = []
    for g in (4, 5):
        out.append({"phase": "refusing", "gen": g})
        out.append({"phase": "connecting", "gen": g})
        for s in ([0, 3, 5] if tier == "quick" else range(6)):
            out.append({"phase": "handshake", "gen": g, "step": s})
        out.append({"phase": "initialised", "gen": g})
        out.append({"phase": "pending", "gen": g})
        out.append({"phase": "after_failed_init", "gen": g})
        out.append({"phase": "backoff", "gen": g})
        out.append({"phase": "slow_subscriber", "gen": g})
        out.append({"phase": "initialised", "gen": g, "close_latency": 0.0625})      # closing the transport takes 62.5 ms (a dyadic value: float clock arithmetic stays exact)
        out.append({"phase": "connecting", "gen": g, "quick_reinit": True})        # init() again while the old connect is still in flight
        out.append({"phase": "connecting", "gen": g, "quick_reinit": True, "close_latency": 0.0625})
        out.append({"phase": "initialised", "gen": g, "quick_reinit": True, "close_latency": 0.0625})   # init() again while shutdown() is still closing
        for sc in ("down_queue", "connecting", "write_suspended", "write_suspended_lost", "backoff", "fault_then_slow_connect", "fault_then_slow_close"):
            out.append({"phase": "sock_close", "gen": g, "scenario": sc})
        for st in range(6):
            out.append({"phase": "race", "gen": g, "step": st})
        for anchor in ("accept", "reset", "push"):
            out.append({"phase": "race", "gen": g, "anchor": anchor})
        for st in (3, 4):
            # the console also broadcasts its zone/group status unsolicited right behind the answer (as consoles do on any change)
            out.append({"phase": "race", "gen": g, "step": st, "broadcast": True})
        if tier == "thorough":
            # every phase once more with a transport that takes 62.5 ms to close; the races over 48 loop turns and with the slow close
            for ph in ("refusing", "connecting", "pending", "after_failed_init", "backoff"):
                out.append({"phase": ph, "gen": g, "close_latency": 0.0625})
            for st in range(6):
                out.append({"phase": "handshake", "gen": g, "step": st, "close_latency": 0.0625})
                out.append({"phase": "race", "gen": g, "step": st, "turns": 48})
                out.append({"phase": "race", "gen": g, "step": st, "turns": 24, "close_latency": 0.0625})
            for anchor in ("accept", "reset", "push"):
                out.append({"phase": "race", "gen": g, "anchor": anchor, "turns": 48})
            for sc in ("down_queue", "connecting", "write_suspended", "write_suspended_lost", "backoff"):
                out.append({"phase": "sock_close", "gen": g, "scenario": sc, "close_latency": 0.0625})
            out.append({"phase": "initialised", "gen": g, "second_cycle": True})
            out.append({"phase": "pending", "gen": g, "second_cycle": True})
            out.append({"phase": "handshake", "gen": g, "step": 2, "second_cycle": True})
    return out


def expect_labels(tier):
    return ["nothing_after_shutdown", "loop_idle", "send_raises_not_open", "all_transports_closed", "reinit_works"]


def _b(x):
    return bool(x) if isinstance(x, SymBool) else x


async def _noop_sub(*a, **kw):
    return None


def _quick_reinit(ctx, p):
    """shutdown() while the first connect is in flight (it takes 3 s), then init() again at a free instant - possibly before
    the old attempt has resolved: the new session initialises, one connection is in use, every other one was closed."""
    g = Gen(p["gen"])
    inst = Installation.simple(g.n, n_acs=2, zones_per_ac=2)
    initialised = p["phase"] == "initialised"
    ts = ctx.real("ts", 0, 2.5) if not initialised else 1.0
    r = ctx.real("r", 0, 4, lo_strict=True) if not initialised else ctx.real("r", 0, 0.25, lo_strict=True)
    with ApiRig(ctx, g, inst) as rig:
        con = rig.console
        rig.net.on_connect = lambda net, n: ("accept", (3.0 if not initialised else 0) if n == 0 else 0.25)
        if p.get("close_latency"):
            rig.net.close_latency = p["close_latency"]
            ctx.assume(ts + r != 3.0 + p["close_latency"])
        rig.start()
        done = {}

        async def do_shutdown():
            await rig.at.shutdown()
            done["at"] = rig.loop.time()

        rig.loop.vt_call_at(ts, lambda: rig.spawn(do_shutdown()))
        rig.run(ts)
        rig.init_result = None
        rig.start(at=ts + r)
        rig.run(ts + r + 20.0)
        got = {a.ac_id: sorted(z.zone_id for z in a.zones) for a in rig.at.air_conditioners} if rig.at else None
        detail = {"phase": "quick_reinit", "result": rig.init_result, "model": got, "conns": len(rig.net.conns)}
        ctx.observe("result", rig.init_result)
        ctx.check("at" in done, "nothing_after_shutdown", detail=dict(detail, why="shutdown() did not return"))
        if initialised and "at" in done and _b(ts + r < done["at"]):
            # init() was called while shutdown() was still closing the connection: the property speaks of a *later* init();
            # whatever this one returns, the client must not be left open without ever connecting
            again = {}

            async def later():
                again["r"] = await rig.at.init()

            if rig.init_result is not True:
                rig.spawn(later())
                rig.run(ts + r + 40.0)
                ctx.check(again.get("r") is True, "reinit_works", detail=dict(detail, why="a later init() does not work either", second=again.get("r")))
            for lab in expect_labels("quick"):
                ctx.reach(lab)
            return
        ctx.check(rig.init_result is True and rig.at.initialised and got == {0: [0, 1], 1: [2, 3]}, "reinit_works", detail=detail)
        still_open = [c.index for c in rig.net.conns if not c.client_closed]
        ctx.check(rig.net.max_open <= 1 and len(still_open) == 1, "all_transports_closed", detail=dict(detail, still_open=still_open, max_open=rig.net.max_open))
        ctx.check(not rig.task_failures(), "reinit_works", detail=[str(e.get("exception")) for e in rig.task_failures()][:2])
    for lab in expect_labels("quick"):
        ctx.reach(lab)


def _slow_subscriber(ctx, p):
    """An application subscriber takes 125 ms over a notification; shutdown() and a new init() fall into that time (free
    instants). The old session's receive task must not live on into the new session: init() succeeds, one connection is
    in use and stays up, the model follows the console."""
    g = Gen(p["gen"])
    inst = Installation.simple(g.n, n_acs=2, zones_per_ac=2)
    ts = 1.0 + ctx.real("dts", 0, 0.09375, lo_strict=True)
    r = ctx.real("r", 0, 0.25, lo_strict=True)
    with ApiRig(ctx, g, inst) as rig:
        con = rig.console
        rig.start()
        rig.run(0.5)
        ctx.check(rig.init_result is True, "reinit_works", detail="handshake failed")

        async def slow(_id):
            await asyncio.sleep(0.125)

        rig.ac(0).subscribe(slow)
        inst.ac_status[0] = (r4.build_ac_status(0, 0, 1, 3, 1, 1, 19, 600, 0) if g.n == 4 else r5.build_ac_status(0, 0, 1, 3, 90, 0, 0, 1, 1, 600, 0))
        rig.loop.vt_call_at(1.0, lambda: con.push(con.ac_status_frame(pid=0x67, only=[0])))
        done = {}

        async def again():
            await rig.at.shutdown()
            done["at"] = rig.loop.time()
            await asyncio.sleep(r)
            done["result"] = await rig.at.init()

        rig.loop.vt_call_at(ts, lambda: rig.spawn(again()))
        rig.run(ts + r + 12.0)
        got = {a.ac_id: sorted(z.zone_id for z in a.zones) for a in rig.at.air_conditioners}
        open_now = [c.index for c in rig.net.conns if not c.client_closed]
        detail = {"result": done.get("result"), "model": got, "conns": len(rig.net.conns), "still_open": open_now,
                  "errors": [str(e.get("exception")) for e in rig.task_failures()][:2]}
        ctx.observe("result", done.get("result"))
        ctx.check(done.get("result") is True and rig.at.initialised and got == {0: [0, 1], 1: [2, 3]}, "reinit_works", detail=detail)
        ctx.check(len(rig.net.conns) == 2 and open_now == [1] and rig.net.max_open <= 1, "all_transports_closed",
                  detail=dict(detail, why="the new session's connection was disturbed"))
        ctx.check(not rig.task_failures(), "reinit_works", detail=detail)
    for lab in expect_labels("quick"):
        ctx.reach(lab)


def run(ctx, p):
    if p["phase"] == "sock_close":
        return _sock_close(ctx, p)
    if p["phase"] == "slow_subscriber":
        return _slow_subscriber(ctx, p)
    if p.get("quick_reinit"):
        return _quick_reinit(ctx, p)
    A = importlib.import_module("pyairtouch.api")
    S = socket_mod()
    g = Gen(p["gen"])
    phase = p["phase"]
    inst = Installation.simple(g.n, n_acs=2, zones_per_ac=2)
    mode = {"accept": phase not in ("refusing",)}
    lat = 3.0 if phase == "connecting" else 0
    RACE_TURNS = p.get("turns", 24)
    window = {"race": (0, 0), "refusing": (0, 7), "connecting": (0, 5), "handshake": (0.25, 6.5), "initialised": (1, 400), "pending": (3, 9),
              "after_failed_init": (5.5, 9), "backoff": (1, 8)}[phase]
    if phase == "race":
        # shutdown() is called k loop turns after the console received the request of handshake step `step`, at the same
        # virtual instant: the answer is then in flight / buffered / being handled (handler suspended in a notification)
        ts = 0 if p.get("anchor", "request") in ("request", "accept") else 1.0
        k_turns = ctx.choice("turns", RACE_TURNS)
    else:
        ts = ctx.real("ts", window[0], window[1])
    with ApiRig(ctx, g, inst) as rig:
        con = rig.console

        def on_connect(net, n):
            if not mode["accept"]:
                return ("refuse",)
            return ("accept", lat)

        rig.net.on_connect = on_connect
        if p.get("close_latency"):
            rig.net.close_latency = p["close_latency"]
        if phase in ("handshake", "after_failed_init"):
            con.silent.add(STEPS[p.get("step", 2)])
        rig.start()
        done = {}

        async def do_shutdown():
            await rig.at.shutdown()
            done["at"] = rig.loop.time()
            rig.net.frozen = True          # from here on any network activity is a violation
            # "no timer or task of the client remains scheduled": looked at a few loop turns after shutdown() returned (the
            # callbacks of tasks that have just finished are still in the ready queue at the very instant it returns)
            # (an init() call of the application that is still waiting for its 5 s limit is the application's, not a leftover)
            while rig.init_returned_at is None and rig.loop.time() < 30:
                await asyncio.sleep(0.25)
            for _ in range(8):
                await asyncio.sleep(0)
            done["idle"] = (len(rig.loop.client_timers()), len(rig.loop.pending_ready()))

        if phase == "backoff":
            # initialised, then the link dies and the console refuses: shutdown falls into the reconnect back-off
            def kill0():
                mode["accept"] = False
                c = rig.net.current()
                if c:
                    c.reset()

            rig.loop.vt_call_at(1.0, kill0)
        if phase == "pending":
            # initialised, then the link dies and the console refuses; a command is queued; then shutdown
            def kill():
                mode["accept"] = False
                c = rig.net.current()
                if c:
                    c.reset()

            async def cmd():
                try:
                    await rig.ac(0).set_power(A.AcPowerControl.TURN_ON)
                except Exception:  # noqa: BLE001
                    pass

            rig.loop.vt_call_at(1.0, kill)
            rig.loop.vt_call_at(2.0, lambda: rig.spawn(cmd()))
        if phase == "race":
            armed = {"on": True}

            def hop(n):
                if n <= 0:
                    rig.spawn(do_shutdown())
                else:
                    rig.loop.call_soon(hop, n - 1)

            def on_request(conn, kind, fr):
                if armed["on"] and kind == STEPS[p["step"]]:
                    armed["on"] = False
                    hop(k_turns)

            anchor = p.get("anchor", "request")
            if anchor == "request":
                con.on_request = on_request
            elif anchor == "accept":
                # k turns after the first connection was handed to the client (connection notification / first request)
                rig.net.on_accept = lambda conn: (hop(k_turns) if armed.pop("on", False) else None)
            elif anchor == "reset":
                # initialised; the link is reset and the console accepts again at once: shutdown() falls into the
                # disconnect notification / immediate reconnect / refresh requests
                def reset_now():
                    c = rig.net.current()
                    if c:
                        c.reset()
                    hop(k_turns)
                rig.loop.vt_call_at(1.0, reset_now)
            elif anchor == "push":
                # initialised, an API subscriber is registered; a changed zone status arrives: shutdown() falls into the
                # model update / subscriber notification
                def push_now():
                    for a in rig.at.air_conditioners:
                        for z in a.zones:
                            z.subscribe(_noop_sub)
                    for n in list(inst.zone_status):         # every zone reports a different damper opening
                        if g.n == 4:
                            inst.zone_status[n] = r4.build_group_status(n, 1, 1, 35, 0, 1, 22, 1, 730, 0)
                        else:
                            inst.zone_status[n] = r5.build_zone_status(n, 1, 1, 35, 120, 1, 730, 0, 0)
                    con.push(con.zone_status_frame(pid=0x7D))
                    hop(k_turns)
                rig.loop.vt_call_at(1.0, push_now)
            if p.get("broadcast"):
                con.silent.add(STEPS[p["step"] + 1])       # the next request stays unanswered: only the broadcast is in the buffer
                con.extra[STEPS[p["step"]]] = [("after", con.zone_status_frame(pid=0x7E))]
        else:
            rig.loop.vt_call_at(ts, lambda: rig.spawn(do_shutdown()))
        rig.run(ts + 1.0)
        detail = {"phase": phase, "step": p.get("step")}
        if phase == "race":
            detail["anchor"] = p.get("anchor", "request")
            detail["turns_after_request"] = k_turns
            rig.net.on_accept = None
            con.on_request = None
            con.extra.clear()
        ctx.check("at" in done, "nothing_after_shutdown", detail=dict(detail, why="shutdown() did not return within 1 s"))
        # the console is reachable again and would answer: nothing may happen any more
        mode["accept"] = True
        con.silent.clear()
        rig.run(ts + 700.0)
        ctx.observe("late", len(rig.net.late))
        ctx.check(rig.net.late == [], "nothing_after_shutdown", detail=dict(detail, late=[(k, str(t)) for k, t in rig.net.late][:4]))
        ctx.check(done.get("idle") == (0, 0), "loop_idle", detail=dict(detail, why="a timer or task of the client was still scheduled right after shutdown() returned",
                                                                       timers_ready=done.get("idle")))
        # a connect that was in flight when shutdown() was called is abandoned with it: no connection comes into being afterwards
        ctx.check(rig.net.inflight_opens == [], "nothing_after_shutdown",
                  detail=dict(detail, why="a connection attempt that was in flight at shutdown() completed afterwards", opened=len(rig.net.inflight_opens)))
        ctx.check(rig.loop.idle(), "loop_idle", detail=dict(detail, timers=len(rig.loop.pending_timers()), ready=len(rig.loop.pending_ready())))
        ctx.check(all(c.client_closed for c in rig.net.conns), "all_transports_closed",
                  detail=dict(detail, open=[c.index for c in rig.net.conns if not c.client_closed]))
        ctx.check(rig.at.initialised is False, "nothing_after_shutdown", detail=dict(detail, why="initialised after shutdown"))
        res = {}

        async def try_send():
            try:
                await rig.at.check_for_updates()
                res["r"] = "sent"
            except S.NotOpenError:
                res["r"] = "notopen"
            except Exception as e:  # noqa: BLE001
                res["r"] = type(e).__name__

        rig.spawn(try_send())
        rig.run(ts + 701.0)
        ctx.check(res.get("r") == "notopen", "send_raises_not_open", detail=dict(detail, result=res.get("r")))
        ctx.check(rig.net.late == [], "nothing_after_shutdown", detail=dict(detail, why="activity after a refused send"))
        # ---- reversible: a later init() works as on a fresh object ------------------------------------------
        rig.net.frozen = False
        n_req = len(con.requests)
        t0 = ts + 702.0
        rig.init_result = None
        rig.start(at=t0)
        rig.run(t0 + 700.0)
        got = {a.ac_id: sorted(z.zone_id for z in a.zones) for a in rig.at.air_conditioners} if rig.at else None
        kinds = [k for _, k, _ in con.requests[n_req:]]
        ok = rig.init_result is True and rig.at.initialised and got == {0: [0, 1], 1: [2, 3]} and kinds[:6] == STEPS
        ctx.check(ok, "reinit_works", detail=dict(detail, result=rig.init_result, model=got, kinds=kinds[:8]))
        # the heartbeat of the new session runs (a console-version request 300 s after the re-initialisation)
        hb = [t for t, k, _ in con.requests[n_req:] if k == "version"]
        ctx.check(len(hb) >= 3, "reinit_works", detail=dict(detail, why="no heartbeat in the second session", version_requests=len(hb)))
        resets2 = [t for (ev, idx, t) in rig.net.events if ev == "close" and _b(t > t0)]
        ctx.check(resets2 == [], "reinit_works", detail=dict(detail, why="the healthy link of the second session was reset", at=[str(t) for t in resets2]))
        ctx.check(not rig.task_failures(), "reinit_works", detail=[str(e.get("exception")) for e in rig.task_failures()][:2])
        if p.get("second_cycle"):
            # the second session is shut down at a free instant too: final and leak-free again
            ts2 = t0 + 700.0 + ctx.real("ts2", 1, 400)
            done.pop("at", None)
            rig.loop.vt_call_at(ts2, lambda: rig.spawn(do_shutdown()))
            rig.run(ts2 + 1.0)
            ctx.check("at" in done, "nothing_after_shutdown", detail=dict(detail, why="second shutdown() did not return within 1 s"))
            rig.run(ts2 + 700.0)
            ctx.check(rig.net.late == [], "nothing_after_shutdown", detail=dict(detail, cycle=2, late=[(k, str(t)) for k, t in rig.net.late][:4]))
            ctx.check(rig.loop.idle(), "loop_idle", detail=dict(detail, cycle=2, timers=len(rig.loop.pending_timers()), ready=len(rig.loop.pending_ready())))
            ctx.check(all(c.client_closed for c in rig.net.conns), "all_transports_closed", detail=dict(detail, cycle=2))
            ctx.check(rig.at.initialised is False, "nothing_after_shutdown", detail=dict(detail, cycle=2, why="initialised after shutdown"))


def _sock_close(ctx, p):
    """Closing the bare socket (the property's '(or closing the socket)'): messages held for a down link, a connect in
    flight, a write suspended in drain(), or the reconnect back-off - close() at a free instant. Afterwards nothing
    happens any more, no connected notification is issued, send raises NotOpenError; a later open_socket() behaves as on
    a fresh object (in particular nothing submitted before the close reaches the wire)."""
    S = socket_mod()
    g = Gen(p["gen"])
    sc = p["scenario"]
    entry = catalog.catalog(g)[3]
    mode = {"accept": sc in ("connecting", "write_suspended", "write_suspended_lost", "backoff", "fault_then_slow_connect", "fault_then_slow_close")}
    lat = 3.0 if sc == "connecting" else 0
    ts = ctx.real("ts", 0, 7) if sc != "backoff" else ctx.real("ts", 1, 8)
    if sc == "fault_then_slow_connect":
        # a message is held until the first connection exists (0.75 s); its write - made by the connecting task itself -
        # fails: two connection attempts are then pending (the immediate one of the reset, which takes 1 s, and the delayed
        # retry of the attempt that has just failed); close() falls into that second
        ts = 0.75 + ctx.real("dts", 0, 1.0, lo_strict=True)
    if sc == "fault_then_slow_close":
        # the write of a command that may be repeated fails at 0.5 s and the client tears the dead connection down, which takes
        # half a second (slow transport close); close() falls into that tear-down
        ts = 0.5 + ctx.real("dts", 0, 0.5, lo_strict=True)
    with Rig(ctx, g) as rig:
        if p.get("close_latency"):
            rig.net.close_latency = p["close_latency"]
        rig.net.on_connect = lambda net, n: (("accept", lat) if mode["accept"] else ("refuse",))
        if sc == "fault_then_slow_close":
            rig.net.close_latency = 0.5
            rig.net.on_drain = lambda conn, n: (ConnectionResetError("write fault") if (conn.index == 0 and n == 1) else None)
        if sc in ("write_suspended", "write_suspended_lost"):
            rig.net.on_drain = lambda conn, n: 4.0        # back-pressure: every drain() takes 4 s
        if sc == "fault_then_slow_connect":
            rig.net.on_connect = lambda net, n: ("accept", 0.75 if n == 0 else 1.0)
            rig.net.on_drain = lambda conn, n: (ConnectionResetError("write fault") if (conn.index == 0 and n == 1) else None)
        res = {}

        def sender(i, retries):
            async def go():
                try:
                    await rig.sock.send(entry[1](i), S.RetryPolicy(max_retries=retries, max_lifetime=300.0))
                    res[i] = "ok"
                except Exception as e:  # noqa: BLE001
                    res[i] = type(e).__name__
            return go

        rig.spawn(rig.sock.open_socket())
        rig.loop.vt_call_at(0.5, lambda: rig.spawn(sender(1, 2)()))
        rig.loop.vt_call_at(1.5, lambda: rig.spawn(sender(2, 0)()))
        if sc == "backoff":
            def kill():
                mode["accept"] = False
                c = rig.net.current()
                if c:
                    c.reset()
            rig.loop.vt_call_at(1.0, kill)
        done = {}

        async def do_close():
            await rig.sock.close()
            done["at"] = rig.loop.time()
            rig.net.frozen = True
            for _ in range(8):
                await asyncio.sleep(0)
            done["idle"] = (len(rig.loop.client_timers()), len(rig.loop.pending_ready()))

        rig.loop.vt_call_at(ts, lambda: rig.spawn(do_close()))
        if sc == "write_suspended_lost":
            # the link breaks shortly after close(): the write that was still waiting on the transport fails with an error
            def break_link():
                for c in rig.net.conns:
                    c.reset()
            rig.loop.vt_call_at(ts + 0.125, break_link)
        rig.loop.vt_run(ts + 1.0)
        detail = {"scenario": sc}
        ctx.check("at" in done, "nothing_after_shutdown", detail=dict(detail, why="close() did not return within 1 s"))
        mode["accept"] = True
        rig.loop.vt_run(ts + 100.0)
        ctx.observe("late", len(rig.net.late))
        ctx.check(rig.net.late == [], "nothing_after_shutdown", detail=dict(detail, late=[(k, str(t)) for k, t in rig.net.late][:4]))
        ctx.check(rig.net.inflight_opens == [], "nothing_after_shutdown",
                  detail=dict(detail, why="a connection attempt that was in flight at close() completed afterwards", opened=len(rig.net.inflight_opens)))
        if sc not in ("write_suspended", "write_suspended_lost"):
            # (a send() of the *application* that is still waiting in drain() is the application's task, not the client's)
            ctx.check(done.get("idle") == (0, 0), "loop_idle", detail=dict(detail, why="a timer or task of the client was still scheduled right after close() returned",
                                                                           timers_ready=done.get("idle")))
        t_done = done.get("at", ts)
        late_conn = [t for t, connected in rig.conn_events if connected and _b(t > t_done)]
        ctx.check(late_conn == [], "nothing_after_shutdown", detail=dict(detail, why="connected notification after close()", at=[str(t) for t in late_conn]))
        ctx.check(rig.loop.idle(), "loop_idle", detail=dict(detail, timers=len(rig.loop.pending_timers()), ready=len(rig.loop.pending_ready())))
        ctx.check(all(c.client_closed for c in rig.net.conns), "all_transports_closed", detail=detail)
        out = {}

        async def try_send():
            try:
                await rig.sock.send(entry[1](3), S.RetryPolicy(max_retries=0, max_lifetime=30.0))
                out["r"] = "sent"
            except S.NotOpenError:
                out["r"] = "notopen"
            except Exception as e:  # noqa: BLE001
                out["r"] = type(e).__name__

        rig.spawn(try_send())
        rig.loop.vt_run(ts + 101.0)
        ctx.check(out.get("r") == "notopen", "send_raises_not_open", detail=dict(detail, result=out.get("r")))
        # ---- reversible ------------------------------------------------------------------------------------
        rig.net.frozen = False
        rig.net.on_drain = None
        n_conns = len(rig.net.conns)
        rig.loop.vt_call_at(ts + 102.0, lambda: rig.spawn(rig.sock.open_socket()))
        rig.loop.vt_call_at(ts + 103.0, lambda: rig.spawn(sender(4, 0)()))
        rig.loop.vt_run(ts + 110.0)
        new = rig.net.conns[n_conns:]
        from ref import framing
        frames = [f for c in new for f in framing.parse_stream(g.n, [int(x) for x in c.written()])]
        datas = [bytes(f["data"]) for f in frames]
        ok = len(new) == 1 and not new[0].client_closed and datas == [bytes(entry[3](4))] and res.get(4) == "ok"
        ctx.check(ok, "reinit_works", detail=dict(detail, conns=len(new), frames=[d.hex() for d in datas], result=res.get(4)))
        ctx.check(not rig.task_failures(), "reinit_works", detail=[str(e.get("exception")) for e in rig.task_failures()][:2])
