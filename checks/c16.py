"""C16 — pending-message buffer is bounded and overflow is explicit.

One inductive step from an arbitrary valid queue state, driven through the public API only:
at t=0 (link down) q messages with free lifetimes are accepted — at that instant none can be
expired, so the state reached is "q held entries with arbitrary positive expiries"; the clock
then moves to a free instant t and ONE more send runs with a free policy. Afterwards the
console starts accepting and everything written is compared with the reference semantics
(purge expired, then capacity check, then append; expired entries never transmitted).
"""
from __future__ import annotations

import importlib

from ref import framing
from sx.values import SymBytes, sym_and, sym_not, sym_or

from .common import Gen, Rig, bytes_eq, socket_mod

PID = "C16"
WALL_BUDGET = {"quick": 600, "thorough": 5400}
SAMPLE_RATE = {"quick": 0.01, "thorough": 0.001}
CHUNK = 64
STUBS = ["asyncio.open_connection -> FakeNet (refuses until attempt k, then accepts at once)", "loop -> VLoop (virtual time, symbolic instants)"]
OUTSIDE = ["write faults (C02)", "more than one further send after the step (C01 covers short histories)",
           "lifetimes above 12 s / instants above 8 s (the code only adds and compares, so scale does not matter, but this is an argument not a verdict)"]
ASSUMPTIONS = ["queue states are represented by entries accepted at t=0 with free positive lifetimes: every (message, expiry) multiset with positive expiries is reachable this way"]


def bounds(tier):
    return {"flush_stall": {"held": [2, 3] if tier == "quick" else [2, 3, 4, 5], "stall_s": "(0, 11) free", "lifetimes_s": "(0, 12) free"},
            "q": _qs(tier), "free_lifetimes_per_instance": 3 if tier == "quick" else 6, "connect_attempt_index_k": [1, 2, 3],
            "capacity_constant_read_from_module": True}


def _qs(tier):
    return [0, 1, 2, 3, 8, 9, 10] if tier == "quick" else list(range(0, 11))


def instances(tier):
    out = []
    cap_free = 3 if tier == "quick" else 6
    for q in _qs(tier):
        for k in (1, 2) if tier == "quick" else (1, 2, 3):
            out.append({"kind": "step", "q": q, "k": k, "free": min(q, cap_free)})
    if tier == "thorough":
        out.append({"kind": "step", "q": 10, "k": 1, "free": 10})
    # the flush itself takes time: the first write of the flush is held up (back-pressure) for a free duration, so that
    # entries behind it can pass their expiry while they wait to be written
    for q in (2, 3) if tier == "quick" else (2, 3, 4, 5):
        out.append({"kind": "flush_stall", "q": q})
    for via in ("send", "send_with_header"):
        out.append({"kind": "closed", "how": "never_opened", "via": via})
        out.append({"kind": "closed", "how": "closed_after_open", "via": via})
    out.append({"kind": "overfill"})
    out.append({"kind": "overfill", "eleventh": "predefined"})
    out.append({"kind": "overfill", "during_connect": True})       # all eleven sends fall into a slow connection attempt
    for g in (4, 5):
        out.append({"kind": "api_overfill", "gen": g})
    out.append({"kind": "concurrent_failures", "n": 11})
    out.append({"kind": "concurrent_failures", "n": 12})
    return out


def expect_labels(tier):
    return ["step.outcome", "step.wire", "closed.raises_not_open", "closed.nothing_held", "overfill.eleventh_rejected"]


def _msg(g, i):
    ac = g.m("x2C_ac_ctrl")
    return ac.AcControlMessage(ac_number=i, power=ac.AcPowerControl.TURN_ON, mode=ac.AcModeControl.UNCHANGED,
                               fan_speed=ac.AcFanSpeedControl.UNCHANGED, set_point_control=None)


def _expected_frame(i, pid):
    # AT4 AC control per the vendor document: power 11 (on) | ac number, keep mode/fan (0xF/0xF), keep set-point 0x3F, 0
    return framing.frame(4, 0x80, 0xB0, pid, 0x2C, [0xC0 | i, 0xFF, 0x3F, 0x00])


def run(ctx, p):
    if p["kind"] == "step":
        return _run_step(ctx, p)
    if p["kind"] == "closed":
        return _run_closed(ctx, p)
    if p["kind"] == "flush_stall":
        return _run_flush_stall(ctx, p)
    if p["kind"] == "api_overfill":
        return _run_api_overfill(ctx, p)
    if p["kind"] == "concurrent_failures":
        return _run_concurrent_failures(ctx, p)
    return _run_overfill(ctx, p)


def _run_step(ctx, p):
    g = Gen(4)
    S = socket_mod()
    cap = S.MAX_MESSAGE_QUEUE_SIZE
    q, k, nfree = p["q"], p["k"], p["free"]
    tc = 2.0 * k   # the k-th retry (attempts at 0, 2, 4 ... s) is the first the console accepts
    lifetimes = []
    for i in range(q):
        if i < nfree:
            lifetimes.append(ctx.real(f"L{i}", 0, 12, lo_strict=True))
        else:
            lifetimes.append(100.0)
    t = ctx.real("t", 0, tc, hi_strict=True)
    Lnew = ctx.real("Lnew", 0, 12, lo_strict=True)
    retries_new = ctx.choice("retries_new", 2) * 2
    outcome = {}
    with Rig(ctx, g) as rig:
        rig.net.on_connect = lambda net, n: ("accept", 0) if n >= k else ("refuse",)
        results = []

        async def populate():
            await rig.sock.open_socket()
            for i in range(q):
                try:
                    await rig.sock.send(_msg(g, i), S.RetryPolicy(max_retries=i % 3, max_lifetime=lifetimes[i]))
                    results.append("ok")
                except Exception as e:  # noqa: BLE001
                    results.append(type(e).__name__)

        async def step():
            try:
                await rig.sock.send(_msg(g, 40), S.RetryPolicy(max_retries=retries_new, max_lifetime=Lnew))
                outcome["r"] = "ok"
            except S.QueueOverflowError:
                outcome["r"] = "overflow"
            except Exception as e:  # noqa: BLE001
                outcome["r"] = type(e).__name__

        rig.spawn(populate())
        rig.loop.vt_call_at(t, lambda: rig.spawn(step()))
        rig.loop.vt_run(tc + 1.5)
        # ---- reference semantics -------------------------------------------------
        ctx.check(all(r == "ok" for r in results) and len(results) == q, "step.outcome",
                  detail={"populate": results})
        alive_at_t = [t < lifetimes[i] for i in range(q)]          # entry i unexpired at the step (expiry strict: now >= expiry drops)
        n_alive = sum_bools(alive_at_t)
        expect_overflow = n_alive >= cap
        got_overflow = outcome.get("r") == "overflow"
        ctx.observe("outcome", outcome.get("r"))
        ctx.check(outcome.get("r") in ("ok", "overflow"), "step.outcome", detail=outcome)
        ctx.check(expect_overflow == got_overflow, "step.outcome", detail=outcome)
        # what must be on the wire after the connection at tc: unexpired-at-tc held entries in order, then the new one
        wire = rig.net.conns[0].written() if rig.net.conns else []
        ctx.observe("wire_len", len(wire))
        frames = []
        hl = 14
        ctx.check(len(wire) % hl == 0, "step.wire", detail="wire is not a whole number of 14-byte frames")
        for j in range(len(wire) // hl):
            frames.append(wire[j * hl:(j + 1) * hl])
        # expected list, built symbolically as (present?, frame) in order
        exp = []
        for i in range(q):
            exp.append((tc < lifetimes[i], _expected_frame(i, i)))     # written iff still unexpired when the link comes up
        exp.append((sym_and(sym_not(expect_overflow), tc < t + Lnew), _expected_frame(40, q)))
        # on this path the written frames are concrete in number; match them against the expected sequence
        present = [e for e in exp]
        # each expected-present entry must appear, in order, and nothing else
        idx = 0
        ok_all = True
        conds = []
        for pres, fr in present:
            # decide (fork) whether this entry is expected on this path
            if pres if isinstance(pres, bool) else bool(pres):
                if idx < len(frames):
                    conds.append(bytes_eq(frames[idx], fr))
                else:
                    ok_all = False
                idx += 1
        if idx != len(frames):
            ok_all = False
        ctx.check(sym_and(ok_all, *conds), "step.wire",
                  detail={"frames_written": len(frames), "expected": idx})
        ctx.check(rig.net.max_open <= 1 and not rig.task_failures(), "step.wire")


def _run_flush_stall(ctx, p):
    """q messages with free lifetimes are held for a down link; the console accepts at tc = 2 s and the first write of the
    flush stays in drain() for a free duration. Reference: an entry is written iff it is unexpired at the instant its own
    write would start (expired ones are never transmitted), in order, each once."""
    g = Gen(4)
    S = socket_mod()
    q = p["q"]
    tc = 2.0
    lifetimes = [ctx.real(f"L{i}", 0, 12, lo_strict=True) for i in range(q)]
    stall = ctx.real("stall", 0, 11, lo_strict=True)
    with Rig(ctx, g) as rig:
        rig.net.on_connect = lambda net, n: ("accept", 0) if n >= 1 else ("refuse",)
        rig.net.on_drain = lambda conn, n: (stall if n == 1 else None)
        results = []

        async def populate():
            await rig.sock.open_socket()
            for i in range(q):
                try:
                    await rig.sock.send(_msg(g, i), S.RetryPolicy(max_retries=i % 3, max_lifetime=lifetimes[i]))
                    results.append("ok")
                except Exception as e:  # noqa: BLE001
                    results.append(type(e).__name__)

        rig.spawn(populate())
        rig.loop.vt_run(tc + 12.5)
        ctx.check(results == ["ok"] * q, "step.outcome", detail={"populate": results})
        wire = rig.net.conns[0].written() if rig.net.conns else []
        ctx.check(len(wire) % 14 == 0, "step.wire", detail="wire is not a whole number of 14-byte frames")
        frames = [wire[j * 14:(j + 1) * 14] for j in range(len(wire) // 14)]
        now = tc
        stalled = False
        idx = 0
        ok_all = True
        conds = []
        for i in range(q):
            if bool(now < lifetimes[i]):          # forks: unexpired when its turn comes
                if idx < len(frames):
                    conds.append(bytes_eq(frames[idx], _expected_frame(i, i)))
                else:
                    ok_all = False
                idx += 1
                if not stalled:
                    stalled = True
                    now = now + stall
        if idx != len(frames):
            ok_all = False
        ctx.observe("frames", len(frames))
        ctx.check(sym_and(ok_all, *conds), "step.wire", detail={"frames_written": len(frames), "expected": idx})
        ctx.check(rig.net.max_open <= 1 and not rig.task_failures(), "step.wire")
    for lab in expect_labels("quick"):
        ctx.reach(lab)


def sum_bools(bs):
    """Number of true (Sym)Bools as a (Sym)Int."""
    from sx.values import SymBool
    total = 0
    for b in bs:
        if isinstance(b, SymBool):
            total = total + b._as_int()
        elif b:
            total = total + 1
    return total


def _run_concurrent_failures(ctx, p):
    """More than ten sends are in flight at once (every drain() is held up by back-pressure) when the link dies: each failed
    write may be kept for a retry, but never more than ten messages are held for the down link - what comes out on the
    next connection is at most ten distinct messages, each once."""
    g = Gen(4)
    S = socket_mod()
    n = p["n"]
    t_back = ctx.real("t_back", 3, 9)           # the console accepts again at a free instant
    with Rig(ctx, g) as rig:
        rig.net.on_connect = lambda net, k: ("accept", 0) if (k == 0 or _b(rig.loop.time() >= t_back)) else ("refuse",)
        rig.net.on_drain = lambda conn, k: (1.0 if conn.index == 0 else None)
        res = {}

        def sender(i):
            async def go():
                try:
                    await rig.sock.send(_msg(g, i % 4), S.RetryPolicy(max_retries=2, max_lifetime=60.0))
                    res[i] = "ok"
                except S.QueueOverflowError:
                    res[i] = "overflow"
                except Exception as e:  # noqa: BLE001
                    res[i] = type(e).__name__
            return go

        rig.spawn(rig.sock.open_socket())
        for i in range(n):
            rig.loop.vt_call_at(0.5 + 0.01 * i, (lambda i=i: rig.spawn(sender(i)())))
        rig.loop.vt_call_at(0.75, lambda: rig.net.conns[0].reset())
        rig.loop.vt_run(t_back + 6.0)
        later = [c for c in rig.net.conns[1:]]
        frames = []
        for c in later:
            w = c.written()
            frames += [bytes(w[j:j + 14]) for j in range(0, len(w), 14)]
        pids = sorted(f[4] for f in frames)
        ctx.observe("resent", len(frames))
        held = len(set(pids))
        ctx.check(held <= S.MAX_MESSAGE_QUEUE_SIZE, "overfill.eleventh_rejected",
                  detail={"in_flight": n, "distinct_messages_sent_after_the_outage": held, "results": dict(res)})
        ctx.check(len(pids) == len(set(pids)), "overfill.eleventh_rejected", detail={"why": "a held message went out twice", "packet_ids": pids})
        ctx.check(not rig.task_failures(), "overfill.eleventh_rejected", detail=[str(e.get("exception")) for e in rig.task_failures()][:2])
    for lab in expect_labels("quick"):
        ctx.reach(lab)


def _b(x):
    from sx.values import SymBool
    return bool(x) if isinstance(x, SymBool) else x


def _run_api_overfill(ctx, p):
    """Through the public API: the link is down, ten commands are held; an eleventh request of any kind (solver-enumerated)
    raises the overflow error to its caller, and the ten go out when the link is back."""
    import datetime
    import importlib
    from .common import ApiRig
    from .console import Installation
    A = importlib.import_module("pyairtouch.api")
    S = socket_mod()
    g = Gen(p["gen"])
    inst = Installation.simple(g.n, n_acs=1, zones_per_ac=1)
    calls = ["check_for_updates", "ac_power", "ac_mode", "ac_fan", "ac_temp", "timer_time", "timer_clear", "timer_duration", "zone_power", "zone_damper", "zone_temp"]
    which = calls[ctx.choice("eleventh", len(calls))]
    with ApiRig(ctx, g, inst) as rig:
        mode = {"accept": True}
        rig.net.on_connect = lambda net, n: (("accept", 0) if mode["accept"] else ("refuse",))
        rig.start()
        rig.run(1.0)
        ctx.check(rig.init_result is True, "overfill.eleventh_rejected", detail="handshake failed")
        mode["accept"] = False
        rig.net.current().reset()
        rig.run(1.5)
        ac, zone = rig.ac(0), rig.zone(0)
        res = []

        async def go():
            for i in range(S.MAX_MESSAGE_QUEUE_SIZE):
                try:
                    await ac.set_target_temperature(20 + (i % 5))
                    res.append("ok")
                except S.QueueOverflowError:
                    res.append("overflow")
            try:
                if which == "check_for_updates":
                    await rig.at.check_for_updates()
                elif which == "ac_power":
                    await ac.set_power(A.AcPowerControl.TURN_ON)
                elif which == "ac_mode":
                    await ac.set_mode(A.AcMode.COOL)
                elif which == "ac_fan":
                    await ac.set_fan_speed(A.AcFanSpeed.LOW)
                elif which == "ac_temp":
                    await ac.set_target_temperature(23)
                elif which == "timer_time":
                    await ac.set_quick_timer(A.AcTimerType.ON_TIMER, datetime.time(7, 30))
                elif which == "timer_clear":
                    await ac.clear_quick_timer(A.AcTimerType.OFF_TIMER)
                elif which == "timer_duration":
                    await ac.set_quick_timer(A.AcTimerType.OFF_TIMER, datetime.timedelta(minutes=45))
                elif which == "zone_power":
                    await zone.set_power(A.ZonePowerState.OFF)
                elif which == "zone_damper":
                    await zone.set_damper_percentage(35)
                else:
                    await zone.set_target_temperature(22)
                res.append("ok")
            except S.QueueOverflowError:
                res.append("overflow")
            except Exception as e:  # noqa: BLE001
                res.append(type(e).__name__)

        rig.spawn(go())
        rig.run(2.5)
        n0 = len(rig.console.requests)
        mode["accept"] = True
        rig.run(8.0)
        cmds = [k for _, k, _ in rig.console.requests[n0:] if k == "ac_ctrl"]
        others = [k for _, k, _ in rig.console.requests[n0:] if k not in ("ac_ctrl", "ac_status", "zone_status", "version")]
        ok = res == ["ok"] * S.MAX_MESSAGE_QUEUE_SIZE + ["overflow"] and len(cmds) == S.MAX_MESSAGE_QUEUE_SIZE + (0) and others == []
        ctx.check(ok, "overfill.eleventh_rejected", detail={"eleventh": which, "results": res, "commands_written": len(cmds), "others": others})
    for lab in expect_labels("quick"):
        ctx.reach(lab)


def _run_closed(ctx, p):
    g = Gen(4)
    S = socket_mod()
    with Rig(ctx, g) as rig:
        res = {}

        async def go():
            if p["how"] == "closed_after_open":
                await rig.sock.open_socket()
                await rig.sock.close()
            try:
                if p.get("via", "send") == "send":
                    await rig.sock.send(_msg(g, 1), S.RETRY_IDEMPOTENT)
                else:
                    # the other public entry point: a caller-supplied header
                    m = _msg(g, 1)
                    hdr = g.reg.header_factory.create_from_message(m, g.reg.get_encoder(m.message_id).size(m))
                    await rig.sock.send_with_header(hdr, m, S.RETRY_IDEMPOTENT)
                res["r"] = "ok"
            except S.NotOpenError:
                res["r"] = "notopen"
            except Exception as e:  # noqa: BLE001
                res["r"] = type(e).__name__
            # now open: nothing that was refused may ever be written
            await rig.sock.open_socket()

        rig.spawn(go())
        rig.loop.vt_run(5.25)
        ctx.check(res.get("r") == "notopen", "closed.raises_not_open", detail=res)
        written = [w for c in rig.net.conns for w in c.writes]
        ctx.check(len(written) == 0 and len(rig.net.conns) >= 1, "closed.nothing_held", detail={"writes": len(written)})


def _run_overfill(ctx, p):
    """Concrete history: 10 held + an 11th; the 11th raises, the 10 are written in order."""
    g = Gen(4)
    S = socket_mod()
    cap = S.MAX_MESSAGE_QUEUE_SIZE
    with Rig(ctx, g) as rig:
        rig.net.on_connect = lambda net, n: ("accept", 0) if n >= 1 else ("refuse",)
        if p.get("during_connect"):
            rig.net.on_connect = lambda net, n: ("accept", 3.0)
        res = []

        # the eleventh message is sent with one of the module's predefined policies (solver-enumerated) - the limit does not
        # depend on which policy object a message carries
        predefined = sorted(n for n, v in vars(S).items() if isinstance(v, S.RetryPolicy))
        last_policy = S.RETRY_IDEMPOTENT
        if p.get("eleventh") == "predefined":
            last_policy = getattr(S, predefined[ctx.choice("policy", len(predefined))])

        async def go():
            await rig.sock.open_socket()
            if p.get("during_connect"):
                import asyncio
                await asyncio.sleep(0.5)          # the connection attempt (3 s) is under way now
            for i in range(cap + 1):
                try:
                    await rig.sock.send(_msg(g, i), S.RETRY_IDEMPOTENT if i < cap else last_policy)
                    res.append("ok")
                except S.QueueOverflowError:
                    res.append("overflow")

        rig.spawn(go())
        rig.loop.vt_run(3.25 if not p.get("during_connect") else 5.25)
        wire = rig.net.conns[0].written() if rig.net.conns else []
        exp = []
        for i in range(cap):
            exp.extend(_expected_frame(i, i))
        ok = res == ["ok"] * cap + ["overflow"] and bytes(wire) == bytes(exp)
        ctx.check(ok, "overfill.eleventh_rejected", detail={"results": res, "wire_frames": len(wire) // 14})
