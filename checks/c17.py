"""C17 — unknown and malformed input is tolerated, never misread.

(a) well-formed frames of an unknown type / 0x1F sub-id / 0xC0 sub-type (id and payload symbolic):
    delivered as an unsupported message carrying id and payload unchanged; connection undisturbed;
    the next frame is delivered on the same connection.
(b) arbitrary bytes (header length + L free bytes, then EOF or nothing more): whatever is delivered
    has the header the reference framing reads from those bytes and a valid reference check value;
    the receive task never dies; after reconnect a probe frame is delivered.
Oversized record strides are covered with C05 (stride deltas) and re-checked here through the socket.
"""
from __future__ import annotations

import importlib

from ref import crc as refcrc
from ref import framing
from sx.values import SymBool, SymBytes, SymInt, sym_and, sym_not, sym_or

from .common import Gen, Rig, bytes_eq, comms_mod

PID = "C17"
WALL_BUDGET = {"quick": 900, "thorough": 5400}
SAMPLE_RATE = {"quick": 0.02, "thorough": 0.002}
CHUNK = 32
STUBS = ["asyncio.open_connection -> FakeNet", "StreamReader -> StubReader over symbolic bytes", "loop -> VLoop"]
OUTSIDE = ["payloads longer than the stated bound", "free streams longer than header + the stated number of bytes",
           "message-level meaning of delivered registered types is C05's obligation (same decoders)"]
ASSUMPTIONS = ["check bytes of symbolic well-formed frames are computed with the repo's calculate() (== reference CRC by C06) to avoid a CRC-equivalence query per frame"]


def bounds(tier):
    return {"unknown_payload": [0, 1, 3] if tier == "quick" else [0, 1, 3, 6, 12], "free_stream_extra": [0, 2, 4] if tier == "quick" else [0, 1, 2, 4, 6]}


def instances(tier):
    out = []
    pls = [0, 1, 3] if tier == "quick" else [0, 1, 3, 6, 12]
    for g in (4, 5):
        for n in pls:
            out.append({"kind": "unknown_type", "gen": g, "n": n})
            out.append({"kind": "unknown_ext", "gen": g, "n": n})
        if g == 5:
            for n in ([0, 4] if tier == "quick" else [0, 2, 4, 8]):
                for rl, rc in ((n, 1), (0, 0), (2, n // 2)) if n else ((0, 0),):
                    out.append({"kind": "unknown_c0", "gen": 5, "n": n, "rl": rl, "rc": rc})
        for L in ([0, 2, 4] if tier == "quick" else [0, 1, 2, 4, 6]):
            out.append({"kind": "free_stream", "gen": g, "L": L, "then": "eof"})
            out.append({"kind": "free_stream", "gen": g, "L": L, "then": "silence"})
        if g == 5:
            for what in ("zone", "ac", "timer"):
                out.append({"kind": "subheader", "gen": 5, "what": what})
            out.append({"kind": "redundant_byte", "gen": 5})
        out.append({"kind": "ability_stride", "gen": g, "delta": 2})
        for what in ("version", "error"):
            out.append({"kind": "ext_inner_length", "gen": g, "what": what})
        if g == 4:
            out.append({"kind": "embedded_image", "gen": 4})
        out.append({"kind": "stride", "gen": 5, "delta": 3 if g == 4 else 6, "what": "zone"})
        out.append({"kind": "stride", "gen": 5, "delta": 2 if g == 4 else 5, "what": "ac"})
        out.append({"kind": "stride", "gen": 5, "delta": 1 if g == 4 else 4, "what": "timer"})
    return out


def expect_labels(tier):
    return ["unknown.delivered_unchanged", "unknown.connection_undisturbed", "free.header_as_reference", "free.task_survives", "free.recovers", "stride.prefix_decoded"]


def _calc_chk(span):
    calc = importlib.import_module("pyairtouch.comms.crc16").Crc16Modbus()
    return list(calc.calculate(SymBytes(span)))


def _frame(ctx, gen, to, frm, pid, mtype, data):
    fr = framing.frame(gen, to, frm, pid, mtype, data)
    if ctx.symbolic and not all(isinstance(b, int) for b in fr):
        cs = framing.covered_start(gen)
        fr = fr[:-2] + _calc_chk(fr[cs:-2])
    return fr


def run(ctx, p):
    return globals()["_" + p["kind"]](ctx, p)


def _registered_types(g):
    return (0x1F, 0x2A, 0x2B, 0x2C, 0x2D, 0x36, 0x37) if g.n == 4 else (0x1F, 0xC0)


def _deliver_and_probe(ctx, g, frame_bytes):
    probe = framing.frame(g.n, 0xB0, 0x80, 9, 0x78, [1, 2, 3])
    with Rig(ctx, g) as rig:
        def on_accept(conn):
            if conn.index == 0:
                conn.send(SymBytes(frame_bytes) if ctx.symbolic else bytes(frame_bytes))
                rig.loop.call_later(1.0, lambda: conn.send(bytes(probe)) if not conn.client_closed else None)
        rig.net.on_accept = on_accept
        rig.spawn(rig.sock.open_socket())
        rig.loop.vt_run(8.25)
        return list(rig.received), len(rig.net.conns), rig.task_failures()


def _subheader(ctx, p):
    """AT5 status sub-headers at the edges: (record length, record count) in {0, 1, known-1, known, known+2} x {0, 1, 2} with
    exactly count*length bytes of records. Both zero is the request; a record length that holds the known layout is a
    report of `count` records read from their known prefix (an empty report when count is 0); anything else is malformed
    and is not delivered as a request or as records it does not contain."""
    from ref import at5 as r5
    g = Gen(5)
    what = p["what"]
    if what == "zone":
        sub, known = 0x21, 8
        recs = [r5.build_zone_status(3, 1, 1, 100, 150, 1, 743, 0, 0), r5.build_zone_status(4, 0, 0, 50, 0xFF, 0, 0x7FF, 0, 0)]
    elif what == "ac":
        sub, known = 0x23, 8
        recs = [r5.build_ac_status(1, 1, 4, 2, 120, 0, 0, 0, 1, 730, 0, pad=0), r5.build_ac_status(2, 0, 1, 3, 100, 0, 0, 1, 0, 740, 7, pad=0)]
    else:
        sub, known = 0x33, 9
        recs = [r5.build_timer_status(1, 0, 7, 31, 1, 0, 0), r5.build_timer_status(2, 1, 0, 0, 0, 22, 58)]
    rl = (0, 1, known - 1, known, known + 2)[ctx.choice("rl", 5)]
    rc = ctx.choice("rc", 3)
    pid = ctx.byte("pid")
    body = []
    for i in range(rc):
        r = (list(recs[i]) + [0xEE, 0xEF])[:rl]
        body += r
    fr = _frame(ctx, 5, 0xB0, 0x80, pid, 0xC0, framing.c0(sub, [], rl, rc, body))
    probe = framing.frame(5, 0xB0, 0x80, 9, 0x78, [1, 2, 3])
    with Rig(ctx, g) as rig:
        def on_accept(conn):
            if conn.index == 0:
                conn.send(SymBytes(fr) if ctx.symbolic else bytes(fr))
                rig.loop.call_later(1.0, lambda: conn.send(bytes(probe)) if not conn.client_closed else None)
            elif conn.index == 1:
                conn.send(bytes(probe))
        rig.net.on_accept = on_accept
        rig.spawn(rig.sock.open_socket())
        rig.loop.vt_run(8.25)
        got, conns, fails = list(rig.received), len(rig.net.conns), rig.task_failures()
    first = [m for _, h, m in got if getattr(m, "unsupported_id", None) != 0x78]
    probes = [m for _, h, m in got if getattr(m, "unsupported_id", None) == 0x78]
    detail = {"what": what, "record_length": rl, "record_count": rc, "delivered": [type(getattr(m, "sub_message", m)).__name__ for m in first], "conns": conns}
    ctx.observe("delivered", detail["delivered"])
    ctx.check(len(probes) == 1 and not fails and conns <= 2, "free.recovers", detail=detail)
    is_req = bool(first) and type(first[0].sub_message).__name__.endswith("Request")
    n_recs = None
    if first and not is_req:
        sm = first[0].sub_message
        xs = getattr(sm, "zones", None) or getattr(sm, "ac_status", None) or getattr(sm, "ac_timer_status", None) or []
        n_recs = len(xs)
    if rl == 0 and rc == 0:
        ctx.check(len(first) == 1 and is_req and conns == 1, "stride.prefix_decoded", detail=dict(detail, why="the request form was not delivered as a request"))
    elif rl >= known:
        ok = len(first) == 1 and not is_req and n_recs == rc and conns == 1
        if ok and rc:
            xs = getattr(sm, "zones", None) or getattr(sm, "ac_status", None) or getattr(sm, "ac_timer_status", None)
            ids = [getattr(x, "zone_number", getattr(x, "ac_number", None)) for x in xs]
            ok = ids == [3, 4][:rc] if what == "zone" else ids == [1, 2][:rc]
        ctx.check(ok, "stride.prefix_decoded", detail=dict(detail, why="a report with records of at least the known length was not decoded from the known prefix"))
    else:
        # malformed: a record length that cannot hold a record (or no length for records announced)
        ctx.check(not is_req, "stride.prefix_decoded", detail=dict(detail, why="a malformed report was delivered as a request"))
        ctx.check(not first or n_recs == 0, "stride.prefix_decoded", detail=dict(detail, why="records delivered that the frame does not contain"))
    for lab in ("unknown.delivered_unchanged", "unknown.connection_undisturbed", "free.header_as_reference", "free.task_survives"):
        ctx.reach(lab)


def _redundant_byte(ctx, p):
    """AirTouch 5 v1.2 section 3.h: 'a 00 is inserted after every three consecutive 0x55s in the package. The inserted 00 is
    redundant bytes. Redundant bytes do not participate in check calculation.' A zone-names answer for a zone called 'UUUX'
    therefore arrives as ... 55 55 55 00 58 ...; the document does not say whether the length field counts the inserted
    byte, so both readings are offered (solver-chosen). What those bytes mean is the name 'UUUX'. The client implements the
    rule on neither path (recorded as KF-C17-1, not repaired: byte stuffing on both paths is a feature, and the length
    question needs a real console to settle)."""
    g = Gen(5)
    counted = bool(ctx.choice("length_counts_inserted_byte", 2))
    payload = framing.ext(0xFF13, [2, 4] + list(b"UUUX"))
    plain = framing.frame(5, 0xB0, 0x90, 7, 0x1F, payload)          # check bytes over the unstuffed bytes
    hl = framing.header_len(5)
    body = list(plain[hl:-2])
    i = next(k for k in range(len(body) - 2) if body[k:k + 3] == [0x55, 0x55, 0x55])
    stuffed_body = body[:i + 3] + [0x00] + body[i + 3:]
    head = list(plain[:hl])
    if counted:
        n = len(stuffed_body)
        head[-2], head[-1] = (n >> 8) & 0xFF, n & 0xFF
    fr = head + stuffed_body + list(plain[-2:])
    got, conns, fails = _deliver_and_probe(ctx, g, fr)
    first = [m for _, h, m in got if getattr(m, "unsupported_id", None) != 0x78]
    names = getattr(getattr(first[0], "sub_message", None), "zone_names", None) if first else None
    ok = bool(first) and names is not None and dict(names) == {2: "UUUX"} and conns == 1
    ctx.observe("delivered", len(first))
    ctx.check(ok, "free.header_as_reference", known=[("KF-C17-1", True)],
              detail={"length_counts_inserted_byte": counted, "delivered": len(first), "names": repr(names), "conns": conns})
    ctx.check(not fails, "free.task_survives", detail="unhandled exception in the receive task")
    for lab in expect_labels("quick"):
        ctx.reach(lab)


def _embedded_image(ctx, p):
    """An AT4 frame of an unknown type whose payload happens to contain the byte image of a complete, valid group-status
    frame; its length field arrives damaged (any smaller value, solver-chosen). The reference receiver reads the announced
    number of bytes, finds the check bytes wrong and gives the connection up: nothing that follows on it is a frame, so
    nothing is delivered from it - in particular not the embedded image, which the console never sent as a message."""
    from ref import at4 as r4
    g = Gen(4)
    inner = framing.frame(4, 0xB0, 0x80, 0x33, 0x2B, r4.build_group_status(3, 1, 0, 50, 0, 0, 22, 0, 0, 0))
    filler = [0x01, 0x02, 0x03, 0x04]
    payload = filler + list(inner) + [0x09, 0x08]
    good = framing.frame(4, 0xB0, 0x80, 0x21, 0x45, payload)
    n = len(payload)
    dl = ctx.int("damaged_length", 0, n - 1)
    stream = list(good)
    stream[6], stream[7] = (dl >> 8) & 0xFF, dl & 0xFF
    probe = framing.frame(4, 0xB0, 0x80, 9, 0x78, [1, 2, 3])
    with Rig(ctx, g) as rig:
        def on_accept(conn):
            if conn.index == 0:
                conn.send(SymBytes(stream) if ctx.symbolic else bytes(int(b) for b in stream))
            else:
                conn.send(bytes(probe))
        rig.net.on_accept = on_accept
        rig.spawn(rig.sock.open_socket())
        rig.loop.vt_run(10.25)
        got = list(rig.received)
        first = [m for _, h, m in got if getattr(m, "unsupported_id", None) != 0x78]
        probes = [m for _, h, m in got if getattr(m, "unsupported_id", None) == 0x78]
        k = dl.__index__() if isinstance(dl, SymInt) else dl           # (the receiver has concretised it by now: one path per value)
        raw = [int(b) for b in good]
        raw[6], raw[7] = (k >> 8) & 0xFF, k & 0xFF
        ref_accepts = list(refcrc.check_bytes(raw[2:8 + k])) == raw[8 + k:10 + k]
        ctx.observe("delivered", len(first))
        detail = {"damaged_length": k, "delivered": [type(m).__name__ for m in first], "conns": len(rig.net.conns)}
        if not ref_accepts:
            ctx.check(first == [], "free.header_as_reference", detail=dict(detail, why="something was delivered from a connection whose first frame fails its check bytes"))
            ctx.check(len(probes) >= 1 and rig.net.max_open <= 1 and rig.net.conns[0].client_closed, "free.recovers", detail=detail)
        else:
            ctx.reach("free.header_as_reference")
            ctx.reach("free.recovers")
        ctx.check(not rig.task_failures(), "free.task_survives", detail="unhandled exception in the receive task")
    for lab in expect_labels("quick"):
        ctx.reach(lab)


def _ext_inner_length(ctx, p):
    """Console-version / AC-error-information answers whose inner text-length byte is free while the frame carries six text
    bytes: only the frame whose length byte says six is that message. One that announces fewer (bytes left over behind the
    text) or more (text cut short) is malformed: it is not delivered as a version / error text it does not spell out."""
    g = Gen(p["gen"])
    text = list(b"1.2.3b")
    L = ctx.byte("inner_len")
    first_byte = 1 if p["what"] == "version" else 0
    payload = framing.ext(0xFF30 if p["what"] == "version" else 0xFF10, [first_byte, L] + text)
    fr = _frame(ctx, g.n, 0xB0, 0x90, 5, 0x1F, payload)
    probe = framing.frame(g.n, 0xB0, 0x80, 9, 0x78, [1, 2, 3])
    with Rig(ctx, g) as rig:
        def on_accept(conn):
            if conn.index == 0:
                conn.send(SymBytes(fr) if ctx.symbolic else bytes(fr))
                rig.loop.call_later(1.0, lambda: conn.send(bytes(probe)) if not conn.client_closed else None)
            else:
                conn.send(bytes(probe))
        rig.net.on_accept = on_accept
        rig.spawn(rig.sock.open_socket())
        rig.loop.vt_run(8.25)
        got = list(rig.received)
        first = [m for _, h, m in got if getattr(m, "unsupported_id", None) != 0x78]
        probes = [m for _, h, m in got if getattr(m, "unsupported_id", None) == 0x78]
        ctx.observe("delivered", len(first))
        detail = {"what": p["what"], "delivered": [repr(getattr(m, "sub_message", m))[:120] for m in first], "conns": len(rig.net.conns)}
        if _b(L == len(text)):
            sm = getattr(first[0], "sub_message", None) if first else None
            txt = (getattr(sm, "versions", None) or [None])[0] if p["what"] == "version" else getattr(sm, "error_info", None)
            ctx.check(len(first) == 1 and str(txt) == "1.2.3b" and len(rig.net.conns) == 1, "free.header_as_reference", detail=detail)
        else:
            ctx.check(first == [], "free.header_as_reference", detail=dict(detail, why="a frame with a wrong inner length was delivered as a message"))
        ctx.check(len(probes) >= 1 and rig.net.max_open <= 1, "free.recovers", detail=detail)
        ctx.check(not rig.task_failures(), "free.task_survives", detail="unhandled exception in the receive task")
    for lab in expect_labels("quick"):
        ctx.reach(lab)


def _b(x):
    from sx.values import SymBool
    return bool(x) if isinstance(x, SymBool) else x


def _unknown_type(ctx, p):
    g = Gen(p["gen"])
    C = comms_mod()
    t = ctx.byte("type")
    ctx.assume(sym_and(*[t != r for r in _registered_types(g)] + [t != 0x78]))
    data = [ctx.byte(f"d{i}") for i in range(p["n"])]
    pid = ctx.byte("pid")
    to, frm = ctx.byte("to"), ctx.byte("from")          # any addresses (a frame for another client is still a well-formed frame)
    fr = _frame(ctx, g.n, to, frm, pid, t, data)
    got, conns, fails = _deliver_and_probe(ctx, g, fr)
    ok_n = len(got) == 2 and conns == 1 and not fails
    ctx.check(ok_n, "unknown.connection_undisturbed", detail={"delivered": len(got), "conns": conns})
    _, h, m = got[0]
    ctx.check(isinstance(m, C.UnsupportedMessage), "unknown.delivered_unchanged", detail=type(m).__name__)
    ctx.check(sym_and(m.unsupported_id == t, m.message_id == t, bytes_eq(m.raw_data, data), h.message_id == t, h.packet_id == pid, h.message_length == p["n"],
                      h.to_address == to, h.from_address == frm), "unknown.delivered_unchanged")
    for lab in ("free.header_as_reference", "free.task_survives", "free.recovers", "stride.prefix_decoded"):
        ctx.reach(lab)


def _unknown_ext(ctx, p):
    g = Gen(p["gen"])
    C = comms_mod()
    hi, lo = ctx.byte("sub_hi"), ctx.byte("sub_lo")
    sub = (hi << 8) | lo
    known = (0xFF10, 0xFF11, 0xFF12, 0xFF20, 0xFF30) if g.n == 4 else (0xFF10, 0xFF11, 0xFF13, 0xFF30, 0xFF49)
    ctx.assume(sym_and(*[sub != k for k in known]))
    data = [ctx.byte(f"d{i}") for i in range(p["n"])]
    fr = _frame(ctx, g.n, 0xB0, 0x90, 5, 0x1F, [hi, lo] + data)
    got, conns, fails = _deliver_and_probe(ctx, g, fr)
    ctx.check(len(got) == 2 and conns == 1 and not fails, "unknown.connection_undisturbed", detail={"delivered": len(got), "conns": conns})
    _, h, m = got[0]
    inner = getattr(m, "sub_message", None)
    ctx.check(isinstance(m, g.ext.ExtendedMessage) and isinstance(inner, C.UnsupportedMessage), "unknown.delivered_unchanged", detail=type(inner).__name__)
    ctx.check(sym_and(inner.unsupported_id == sub, bytes_eq(inner.raw_data, data)), "unknown.delivered_unchanged")
    for lab in ("free.header_as_reference", "free.task_survives", "free.recovers", "stride.prefix_decoded"):
        ctx.reach(lab)


def _unknown_c0(ctx, p):
    g = Gen(5)
    C = comms_mod()
    st = ctx.byte("sub_type")
    ctx.assume(sym_and(*[st != k for k in (0x20, 0x21, 0x22, 0x23, 0x32, 0x33)]))
    n, rl, rc = p["n"], p["rl"], p["rc"]
    normal = n - rl * rc
    data = [ctx.byte(f"d{i}") for i in range(n)]
    payload = [st, 0] + framing.be16(normal) + framing.be16(rl) + framing.be16(rc) + data
    fr = _frame(ctx, 5, 0xB0, 0x80, 5, 0xC0, payload)
    got, conns, fails = _deliver_and_probe(ctx, g, fr)
    ctx.check(len(got) == 2 and conns == 1 and not fails, "unknown.connection_undisturbed", detail={"delivered": len(got), "conns": conns})
    _, h, m = got[0]
    inner = getattr(m, "sub_message", None)
    ctx.check(isinstance(inner, C.UnsupportedMessage), "unknown.delivered_unchanged", detail=type(inner).__name__)
    ctx.check(sym_and(inner.unsupported_id == st, bytes_eq(inner.raw_data, data)), "unknown.delivered_unchanged")
    for lab in ("free.header_as_reference", "free.task_survives", "free.recovers", "stride.prefix_decoded"):
        ctx.reach(lab)


def _free_stream(ctx, p):
    g = Gen(p["gen"])
    hl = framing.header_len(g.n)
    cs = framing.covered_start(g.n)
    total = hl + p["L"]
    raw = [ctx.byte(f"b{i}") for i in range(total)]
    probe = framing.frame(g.n, 0xB0, 0x80, 9, 0x78, [1, 2, 3])
    with Rig(ctx, g) as rig:
        def on_accept(conn):
            if conn.index == 0:
                conn.send(SymBytes(raw) if ctx.symbolic else bytes(raw))
                if p["then"] == "eof":
                    conn.eof()
                else:
                    # console goes quiet for a while, then closes; the client must still be able to recover
                    rig.loop.call_later(3.0, conn.eof)
            else:
                conn.send(bytes(probe))
        rig.net.on_accept = on_accept
        rig.spawn(rig.sock.open_socket())
        rig.loop.vt_run(12.25)
        got = list(rig.received)
        first = [x for x in got if getattr(x[2], "unsupported_id", None) != 0x78]
        probes = [x for x in got if getattr(x[2], "unsupported_id", None) == 0x78]
        ctx.observe("delivered", len(first))
        ctx.check(not rig.task_failures(), "free.task_survives", detail=[str(e.get("exception")) for e in rig.task_failures()][:2])
        ctx.check(len(probes) >= 1 and rig.net.max_open <= 1, "free.recovers", detail={"probes": len(probes), "conns": len(rig.net.conns)})
        ctx.check(len(first) <= 1, "free.header_as_reference", detail="more messages than frames")
        if first:
            _, h, m = first[0]
            # reference reading of the same bytes
            if g.n == 4:
                pre = bytes_eq(raw[0:2], [0x55, 0x55])
            else:
                n_ = (raw[cs + 4] << 8) | raw[cs + 5]
                tot = n_ + 12
                # bytes 4-5 of the (vendor-undocumented) outer header are reserved: nothing is demanded of them
                pre = sym_and(bytes_eq(raw[0:4], [0x55, 0x55, 0x55, 0xAB]), bytes_eq(raw[10:14], [0x55, 0x55, 0x55, 0xAA]),
                              ((raw[6] << 8) | raw[7]) == tot, ((raw[8] << 8) | raw[9]) == tot)
            n = h.message_length
            k = n.__index__() if isinstance(n, SymInt) else n
            okc = False
            if hl + k + 2 <= total:
                span = raw[cs:hl + k]
                chk = _calc_chk(span) if ctx.symbolic else refcrc.check_bytes(span)
                okc = bytes_eq(raw[hl + k:hl + k + 2], chk)
            ctx.check(sym_and(pre, h.to_address == raw[cs], h.from_address == raw[cs + 1], h.packet_id == raw[cs + 2], h.message_id == raw[cs + 3],
                              ((raw[cs + 4] << 8) | raw[cs + 5]) == k, okc), "free.header_as_reference")
        else:
            ctx.reach("free.header_as_reference")
    for lab in ("unknown.delivered_unchanged", "unknown.connection_undisturbed", "stride.prefix_decoded"):
        ctx.reach(lab)


def _ability_stride(ctx, p):
    """AC ability records that announce a length above the known layout (free extra bytes), through the socket: every known
    field - on AT4 including the group bitmap - is decoded from the known prefix, the connection stays up."""
    from ref import at4 as r4
    from ref import at5 as r5
    g = Gen(p["gen"])
    d = p["delta"]
    if g.n == 4:
        recs = [r4.build_ability(0, "Upstairs", 0, 2, 0b10101, 0b0110110, 17, 30, 0b0000000000000011),
                r4.build_ability(1, "Down", 2, 2, 0b11111, 0b1111111, 16, 31, 0b1000000000001100)]
    else:
        recs = [r5.build_ability(0, "Upstairs", 0, 2, 0b10101, 0b0110110, 17, 30, 18, 31),
                r5.build_ability(1, "Down", 2, 2, 0b11111, 0b1111111, 16, 31, 15, 29)]
    payload = []
    for i, r in enumerate(recs):
        r = list(r)
        r[1] = r[1] + d
        payload += r + [ctx.byte(f"x{i}_{j}") for j in range(d)]
    fr = _frame(ctx, g.n, 0xB0, 0x90, 5, 0x1F, framing.ext(0xFF11, payload))
    got, conns, fails = _deliver_and_probe(ctx, g, fr)
    ok = len(got) == 2 and conns == 1 and not fails
    ctx.check(ok, "stride.prefix_decoded", detail={"what": "ability", "delivered": len(got), "conns": conns})
    acs = got[0][2].sub_message.ac_abilities
    ok2 = len(acs) == 2 and [a.ac_number for a in acs] == [0, 1] and [a.ac_name for a in acs] == ["Upstairs", "Down"]
    if g.n == 4:
        ok2 = ok2 and acs[0].groups == {0, 1} and acs[1].groups == {2, 3, 15} and acs[1].max_set_point == 31
    else:
        ok2 = ok2 and acs[1].start_zone == 2 and acs[1].zone_count == 2 and acs[1].max_heat_set_point == 29
    ctx.check(ok2, "stride.prefix_decoded", detail={"what": "ability", "records": repr(acs)[:300]})
    for lab in ("unknown.delivered_unchanged", "unknown.connection_undisturbed", "free.header_as_reference", "free.task_survives", "free.recovers"):
        ctx.reach(lab)


def _stride(ctx, p):
    """AT5 status records longer than the known layout, through the socket: decoded from the known prefix."""
    from ref import at5 as r5
    g = Gen(5)
    d = p["delta"]
    if p.get("what", "zone") != "zone":
        return _stride_other(ctx, p, g, d)
    rec0 = r5.build_zone_status(3, 1, 1, 100, 150, 1, 743, 0, 0) + [ctx.byte(f"x{i}") for i in range(d)]
    rec1 = r5.build_zone_status(4, 0, 0, 50, 0xFF, 0, 0x7FF, 0, 0) + [ctx.byte(f"y{i}") for i in range(d)]
    fr = _frame(ctx, 5, 0xB0, 0x80, 5, 0xC0, framing.c0(0x21, [], 8 + d, 2, rec0 + rec1))
    got, conns, fails = _deliver_and_probe(ctx, g, fr)
    ok = len(got) == 2 and conns == 1 and not fails
    ctx.check(ok, "stride.prefix_decoded", detail={"delivered": len(got), "conns": conns})
    zs = got[0][2].sub_message.zones
    ctx.check(len(zs) == 2 and zs[0].zone_number == 3 and zs[1].zone_number == 4 and zs[0].temperature == 24.3 and zs[1].temperature is None
              and zs[0].set_point == 25.0 and zs[1].set_point is None, "stride.prefix_decoded")
    for lab in ("unknown.delivered_unchanged", "unknown.connection_undisturbed", "free.header_as_reference", "free.task_survives", "free.recovers"):
        ctx.reach(lab)


def _stride_other(ctx, p, g, d):
    from ref import at5 as r5
    A = {}
    if p["what"] == "ac":
        base0 = r5.build_ac_status(1, 1, 4, 2, 120, 0, 0, 0, 1, 730, 0, pad=0)
        base1 = r5.build_ac_status(2, 0, 1, 3, 100, 0, 0, 1, 0, 740, 7, pad=0)
        sub, known = 0x23, 8
    else:
        base0 = r5.build_timer_status(1, 0, 7, 31, 1, 0, 0)
        base1 = r5.build_timer_status(2, 1, 0, 0, 0, 22, 58)
        sub, known = 0x33, 9
    rec0 = base0 + [ctx.byte(f"x{i}") for i in range(d)]
    rec1 = base1 + [ctx.byte(f"y{i}") for i in range(d)]
    fr = _frame(ctx, 5, 0xB0, 0x80, 5, 0xC0, framing.c0(sub, [], known + d, 2, rec0 + rec1))
    got, conns, fails = _deliver_and_probe(ctx, g, fr)
    ok = len(got) == 2 and conns == 1 and not fails
    ctx.check(ok, "stride.prefix_decoded", detail={"what": p["what"], "delivered": len(got), "conns": conns})
    sm = got[0][2].sub_message
    if p["what"] == "ac":
        xs = sm.ac_status
        ctx.check(len(xs) == 2 and xs[0].ac_number == 1 and xs[1].ac_number == 2 and xs[1].error_code == 7 and xs[0].temperature == 23.0
                  and xs[1].set_point == 20.0, "stride.prefix_decoded", detail="AC status records misread under an oversized stride")
    else:
        xs = sm.ac_timer_status
        ctx.check(len(xs) == 2 and xs[0].ac_number == 1 and xs[1].ac_number == 2 and xs[0].on_timer.hour == 7 and xs[0].on_timer.minute == 31
                  and xs[1].off_timer.hour == 22 and xs[1].off_timer.minute == 58 and xs[1].on_timer.disabled is True,
                  "stride.prefix_decoded", detail="timer records misread under an oversized stride")
    for lab in ("unknown.delivered_unchanged", "unknown.connection_undisturbed", "free.header_as_reference", "free.task_survives", "free.recovers"):
        ctx.reach(lab)
