"""C18 — discovery reports each answering console once, correctly, and terminates.

The real pyairtouch.discover() (both AirTouchDiscoverer.search loops, _DiscoveryDecodeProtocol, both
decoders, the factory) on a virtual loop. The UDP socket and the loop's datagram endpoint are stubs that
hand the real protocol object to the harness, which delivers datagrams with symbolic content at
symbolic instants. Reference for the formats: the vendor documents' discovery sections.
"""
from __future__ import annotations

import asyncio
import importlib
import socket as _socket

from sx.net import FakeNet
from sx.values import SymBool, SymBytes, Utf8Str, sym_and, sym_not, sym_or
from sx.utf8 import utf8_valid
from sx.vloop import make_loop

from .common import Gen, bytes_eq

PID = "C18"
WALL_BUDGET = {"quick": 900, "thorough": 5400}
SAMPLE_RATE = {"quick": 0.03, "thorough": 0.003}
CHUNK = 32
STUBS = ["socket.socket in pyairtouch.comms.discovery -> inert stub (options/bind recorded)", "loop.create_datagram_endpoint -> stub transport recording sendto(); datagrams delivered by the harness",
         "asyncio.open_connection -> FakeNet (to observe host/port of the returned clients)", "loop -> VLoop"]
OUTSIDE = ["real UDP broadcast and the OS socket", "template parts longer than the stated number of free bytes", "fully free datagrams longer than the stated bound, or containing the generation's tag between commas (covered by the template instances)",
           "a datagram arriving at exactly a request instant (tie)"]
ASSUMPTIONS = ["response format per the vendor documents: AT4 '[IP],[MAC],AirTouch4,[ID]'; AT5 '[IP],[ConsoleID],AirTouch5,[AirTouch ID],[Device Name]' (name may contain commas)"]

REQ = {4: (b"HF-A11ASSISTHREAD", 49004), 5: (b"::REQUEST-POLYAIRE-AIRTOUCH-DEVICE-INFO:;", 49005)}


def bounds(tier):
    return {"part_bytes": 2 if tier == "quick" else 4, "free_datagram_bytes": 5 if tier == "quick" else [6, 8, 10, 12, 14, 16, 20], "arrival": "[0,1.6] symbolic"}


def instances(tier):
    out = []
    nb = 2 if tier == "quick" else 4
    for g in (4, 5):
        out.append({"kind": "silent", "gen": g, "unicast": False})
        out.append({"kind": "silent", "gen": g, "unicast": True})
        out.append({"kind": "template", "gen": g, "free": nb, "which": "ids"})
        out.append({"kind": "template", "gen": g, "free": nb, "which": "name"})
        out.append({"kind": "timing", "gen": g})
        out.append({"kind": "timing", "gen": g, "unicast": True})      # the answer's UDP source differs from the host that was asked (multi-homed console / host name)
        out.append({"kind": "template", "gen": g, "free": 1, "which": "ids", "unicast": True})
        out.append({"kind": "duplicate", "gen": g})
        out.append({"kind": "others", "gen": g})
        out.append({"kind": "others", "gen": g, "then_valid": True})   # something else arrives first, the console's answer after it
        for n in ([5] if tier == "quick" else [6, 8, 10, 12, 14, 16, 20]):
            out.append({"kind": "free", "gen": g, "n": n})
        if tier == "thorough":
            out.append({"kind": "template", "gen": g, "free": 3, "which": "ids"})
            out.append({"kind": "template", "gen": g, "free": 3, "which": "name"})
    out.append({"kind": "both", "gen": 0})
    for g in (4, 5):
        out.append({"kind": "reuse", "gen": g})       # a second search() on the same discoverer object
    return out


def expect_labels(tier):
    return ["requests", "terminates", "entries_exact", "others_add_nothing", "clients"]


def _b(x):
    return bool(x) if isinstance(x, SymBool) else x


class _FakeSock:
    def __init__(self, log):
        self.log = log
        self.bound = None

    def setsockopt(self, *a):
        self.log.append(("setsockopt", a))

    def bind(self, addr):
        self.bound = addr

    def close(self):
        pass

    def fileno(self):
        return -1


class _SockModule:
    def __init__(self, log):
        for k in dir(_socket):
            if k.isupper():
                setattr(self, k, getattr(_socket, k))
        self._log = log

    def socket(self, *a, **k):
        return _FakeSock(self._log)


class _Transport:
    def __init__(self, world, port):
        self.world, self.port = world, port
        self.closed = False

    def sendto(self, data, addr):
        self.world.sent.append((self.world.loop.time(), bytes(data), addr, self.port))

    def close(self):
        self.closed = True
        self.world.closed_at[self.port] = self.world.loop.time()

    def is_closing(self):
        return self.closed

    def get_extra_info(self, *a):
        return None


class World:
    def __init__(self, ctx):
        self.ctx = ctx
        self.loop = make_loop(ctx)
        self.sent = []
        self.protocols = {}
        self.transports = {}
        self.closed_at = {}
        self.socklog = []
        self.disc = importlib.import_module("pyairtouch.comms.discovery")
        self._saved_socket = self.disc.socket
        self.disc.socket = _SockModule(self.socklog)

        async def create_datagram_endpoint(protocol_factory, sock=None, **kw):
            port = sock.bound[1]
            proto = protocol_factory()
            tr = _Transport(self, port)
            self.protocols[port] = proto
            self.transports[port] = tr
            proto.connection_made(tr)
            return tr, proto

        self.loop.create_datagram_endpoint = create_datagram_endpoint
        self.net = FakeNet(self.loop)
        self.net.on_connect = lambda net, n: ("refuse",)
        self.seen = []
        orig = self.net.open_connection

        async def oc(host=None, port=None, **kw):
            self.seen.append((host, port))
            return await orig(host=host, port=port, **kw)

        self.net.open_connection = oc
        self.net.install()

    def deliver(self, gen, data, when):
        port = REQ[gen][1]

        def go():
            p = self.protocols.get(port)
            t = self.transports.get(port)
            if p is not None and t is not None and not t.closed:
                p.datagram_received(data, ("10.0.0.9", port))

        self.loop.vt_call_at(when, go)

    def close(self):
        self.disc.socket = self._saved_socket
        self.net.uninstall()
        self.loop.vt_close()


def _wire(ctx, items):
    return SymBytes(items) if (ctx.symbolic and not all(isinstance(x, int) for x in items)) else bytes(items)


def _text(ctx, name, n, forbid_comma=True):
    items = [ctx.byte(f"{name}{i}") for i in range(n)]
    if forbid_comma:
        for b in items:
            ctx.assume(b != 0x2C)
    return items


def _str_eq(s, items):
    got = s.items if isinstance(s, Utf8Str) else list(str(s).encode("utf-8"))
    return bytes_eq(got, items)


def _reuse(ctx, p):
    """The documented discoverer object searched twice: the second search sends its own requests and reports the consoles
    that answered *it* (console A answers the first search only, console B the second at a free instant)."""
    g = p["gen"]
    w = World(ctx)
    try:
        cfg = importlib.import_module(f"pyairtouch.at{g}.comms.discovery").CONFIG
        d = w.disc.AirTouchDiscoverer(discovery_config=cfg, remote_host=None)
        out = {}
        tb = ctx.real("tb", 0, 1.4)
        ctx.assume(sym_and(tb != 0, tb != 0.5, tb != 1.0))

        async def go():
            out["first"] = list(await d.search())
            out["t1"] = w.loop.time()
            await asyncio.sleep(5.0 - w.loop.time())
            out["second"] = list(await d.search())
            out["t2"] = w.loop.time()

        a = list(b"10.0.0.9,AA11,AirTouch%d,2468" % g) + (list(b",Home") if g == 5 else [])
        b = list(b"10.0.0.8,BB22,AirTouch%d,1357" % g) + (list(b",Shed") if g == 5 else [])
        w.deliver(g, bytes(a), 0.25)
        w.deliver(g, bytes(b), 5.0 + tb)
        w.loop.create_task(go())
        w.loop.vt_run(9.0)
        first, second = out.get("first"), out.get("second")
        detail = {"first": [getattr(x, "airtouch_id", None) for x in first or []], "second": [str(getattr(x, "airtouch_id", None)) for x in second or []]}
        ctx.observe("counts", [len(first or []), len(second or [])])
        ctx.check(first is not None and len(first) == 1 and first[0].airtouch_id == "2468", "entries_exact", detail=detail)
        ctx.check(second is not None and len(second) == 1 and second[0].airtouch_id == "1357" and second[0].host == "10.0.0.8", "entries_exact",
                  detail=dict(detail, why="the second search does not report exactly the console that answered it"))
        mine = [s for s in w.sent if _b(s[0] >= 5.0)]
        exp_n = 1 if _b(tb < 0.5) else 2 if _b(tb < 1.0) else 3
        ctx.check(len(mine) == exp_n and all(_b(s[0] == 5.0 + 0.5 * i) for i, s in enumerate(mine)), "requests",
                  detail=dict(detail, sent=[str(s[0]) for s in mine], expected=exp_n))
        ctx.check("t2" in out, "terminates", detail=detail)
    finally:
        w.close()
    for lab in expect_labels("quick"):
        ctx.reach(lab)


def run(ctx, p):
    import pyairtouch
    A = importlib.import_module("pyairtouch.api")
    kind = p["kind"]
    if kind == "reuse":
        return _reuse(ctx, p)
    g = p["gen"]
    w = World(ctx)
    try:
        result = {}

        async def go():
            try:
                result["r"] = await pyairtouch.discover(remote_host=("192.168.7.7" if p.get("unicast") else None))
            except Exception as e:  # noqa: BLE001
                result["exc"] = e
            result["at"] = w.loop.time()

        datagrams = []     # (gen, items, time, expected entry or None)
        if kind == "template":
            nb = p["free"]
            if p["which"] == "ids":
                ln = [ctx.choice(f"len{i}", nb + 1) for i in range(3)]
                host, serial, ident = (_text(ctx, "h", ln[0]), _text(ctx, "s", ln[1]), _text(ctx, "i", ln[2]))
                name = list(b"Home")
            else:
                host, serial, ident = list(b"10.0.0.9"), list(b"AA11"), list(b"2468")
                ln = ctx.choice("lenn", nb + 2)
                name = _text(ctx, "n", ln, forbid_comma=False)
            tag = list(b"AirTouch4" if g == 4 else b"AirTouch5")
            if g == 4:
                items = host + [0x2C] + serial + [0x2C] + tag + [0x2C] + (ident if p["which"] == "ids" else name)
                fields = {"host": host, "serial": serial, "airtouch_id": ident if p["which"] == "ids" else name}
            else:
                items = host + [0x2C] + serial + [0x2C] + tag + [0x2C] + ident + [0x2C] + name
                fields = {"host": host, "serial": serial, "airtouch_id": ident, "name": name}
            valid = sym_and(*[utf8_valid(v) for v in fields.values()])
            datagrams.append((g, items, 0.25, (fields, valid)))
        elif kind == "timing":
            t = ctx.real("t", 0, 1.6)
            ctx.assume(sym_and(t != 0, t != 0.5, t != 1.0, t != 1.5))
            items = list(b"10.0.0.9,AA11,AirTouch%d,2468" % g) + (list(b",Home") if g == 5 else [])
            fields = {"host": list(b"10.0.0.9"), "serial": list(b"AA11"), "airtouch_id": list(b"2468")}
            if g == 5:
                fields["name"] = list(b"Home")
            datagrams.append((g, items, t, (fields, True)))
        elif kind == "duplicate":
            items = list(b"10.0.0.9,AA11,AirTouch%d,2468" % g) + (list(b",Home,sweet,home") if g == 5 else [])
            fields = {"host": list(b"10.0.0.9"), "serial": list(b"AA11"), "airtouch_id": list(b"2468")}
            if g == 5:
                fields["name"] = list(b"Home,sweet,home")
            datagrams.append((g, items, 0.1, (fields, True)))
            datagrams.append((g, list(items), 0.2, None))
            other = list(b"10.0.0.8,BB22,AirTouch%d,1357" % g) + (list(b",Shed") if g == 5 else [])
            f2 = {"host": list(b"10.0.0.8"), "serial": list(b"BB22"), "airtouch_id": list(b"1357")}
            if g == 5:
                f2["name"] = list(b"Shed")
            datagrams.append((g, other, 0.3, (f2, True)))
            # a different console that reports the same AirTouch id is a different response, not a duplicate
            twin = list(b"10.0.0.7,CC33,AirTouch%d,2468" % g) + (list(b",Home,sweet,home") if g == 5 else [])
            f3 = {"host": list(b"10.0.0.7"), "serial": list(b"CC33"), "airtouch_id": list(b"2468")}
            if g == 5:
                f3["name"] = list(b"Home,sweet,home")
            datagrams.append((g, twin, 0.35, (f3, True)))
        elif kind == "others":
            k = ctx.choice("which", 6)
            other_tag = b"AirTouch5" if g == 4 else b"AirTouch4"
            cands = [list(REQ[g][0]),                                             # echo of the request
                     list(b"10.0.0.9,AirTouch%d,2468" % g),                       # too few parts
                     list(b"10.0.0.9,AA11,2468,AirTouch%d,x" % g),                # id in the wrong position
                     list(b"10.0.0.9,AA11," + other_tag + b",2468,Home"),         # the other generation's format
                     list(b"10.0.0.9,AA11,AirTouch%d,24" % g) + [0xFF, 0xFE] + (list(b",Home") if g == 5 else []),   # invalid text
                     list(b"AirTouch%d" % g)]
            datagrams.append((g, cands[k], 0.25, None))
            if p.get("then_valid"):
                items = list(b"10.0.0.9,AA11,AirTouch%d,2468" % g) + (list(b",Home") if g == 5 else [])
                fields = {"host": list(b"10.0.0.9"), "serial": list(b"AA11"), "airtouch_id": list(b"2468")}
                if g == 5:
                    fields["name"] = list(b"Home")
                datagrams.append((g, items, 0.375, (fields, True)))
        elif kind == "free":
            items = [ctx.byte(f"f{i}") for i in range(p["n"])]
            # long enough free datagrams can be genuine responses (",,AirTouch4," is one, with empty fields): those that carry
            # the generation's tag between commas belong to the template instances and are excluded here
            tag = [0x2C] + list(b"AirTouch%d" % g) + [0x2C]
            for off in range(0, p["n"] - len(tag) + 1):
                ctx.assume(sym_not(sym_and(*[items[off + i] == tag[i] for i in range(len(tag))])))
            datagrams.append((g, items, 0.25, None))
        elif kind == "both":
            datagrams.append((4, list(b"10.0.0.4,M4,AirTouch4,44"), 0.2, ({"host": list(b"10.0.0.4"), "serial": list(b"M4"), "airtouch_id": list(b"44")}, True)))
            datagrams.append((5, list(b"10.0.0.5,C5,AirTouch5,55,Five"), 0.7, ({"host": list(b"10.0.0.5"), "serial": list(b"C5"), "airtouch_id": list(b"55"), "name": list(b"Five")}, True)))
        for (dg, items, when, exp) in datagrams:
            w.deliver(dg, _wire(ctx, items), when)
        w.loop.create_task(go())
        w.loop.vt_run(3.0)
        detail = {"kind": kind}
        ctx.check("r" in result and "exc" not in result, "terminates", detail=dict(detail, exc=repr(result.get("exc"))))
        ctx.check(_b(result["at"] <= 1.5), "terminates", detail=dict(detail, at=str(result.get("at"))))
        found = list(result.get("r") or [])
        # ---- requests -----------------------------------------------------------------------------------------
        for gg in (4, 5):
            mine = [s for s in w.sent if s[3] == REQ[gg][1]]
            arrivals = [when for (dg, _, when, exp) in datagrams if dg == gg and exp is not None and _b(exp[1])]
            first = None
            for a in arrivals:
                first = a if first is None or _b(a < first) else first
            if first is None:
                exp_n = 3
            else:
                exp_n = 1 if _b(first < 0.5) else 2 if _b(first < 1.0) else 3
            host = "192.168.7.7" if p.get("unicast") else "255.255.255.255"
            ok = len(mine) == exp_n and all(s[1] == REQ[gg][0] and s[2] == (host, REQ[gg][1]) for s in mine) and \
                all(_b(s[0] == 0.5 * i) for i, s in enumerate(mine))
            ctx.check(ok, "requests", detail=dict(detail, gen=gg, sent=[(str(s[0]), s[2]) for s in mine], expected=exp_n))
            ctx.check(w.transports[REQ[gg][1]].closed, "terminates", detail="datagram endpoint left open")
        # ---- entries --------------------------------------------------------------------------------------------
        expected = []
        for (dg, items, when, exp) in datagrams:
            if exp is None:
                continue
            fields, valid = exp
            # a response counts if it arrived before its discoverer stopped (the interval in which the first answer came)
            if _b(valid) and _b(when < 1.5):
                expected.append((dg, fields))
        ctx.check(len(found) == len(expected), "entries_exact" if expected else "others_add_nothing",
                  detail=dict(detail, found=len(found), expected=len(expected)))
        for (dg, fields) in expected:
            model = A.AirTouchModel.AIRTOUCH_4 if dg == 4 else A.AirTouchModel.AIRTOUCH_5
            match = [a for a in found if a.model is model and _b(_str_eq(a.airtouch_id, fields["airtouch_id"])) and _b(_str_eq(a.host, fields["host"]))]
            ctx.check(len(match) == 1, "entries_exact", detail=dict(detail, why="entry missing or duplicated"))
            a = match[0]
            conds = [_str_eq(a.serial, fields["serial"])]
            if dg == 5:
                conds.append(_str_eq(a.name, fields["name"]))
            ctx.check(sym_and(*conds), "entries_exact", detail=dict(detail, why="serial/name"))
        # ---- clients: model and port ------------------------------------------------------------------------------
        if found and kind in ("timing", "both", "duplicate"):
            async def poke():
                for a in found:
                    t = w.loop.create_task(a.init())
                    await __import__("asyncio").sleep(0.1)
                    await a.shutdown()
                    t.cancel()
            w.loop.create_task(poke())
            w.loop.vt_run(12.0)
            ports = sorted(set(pt for _, pt in w.seen))
            exp_ports = sorted(set(9004 if a.model is A.AirTouchModel.AIRTOUCH_4 else 9005 for a in found))
            ctx.check(ports == exp_ports, "clients", detail=dict(detail, ports=ports))
        for lab in expect_labels("quick"):
            ctx.reach(lab)
    finally:
        w.close()
