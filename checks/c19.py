"""C19 — the unified API behaves the same over AirTouch 4 and AirTouch 5.

Relational harness: in ONE path an AirTouch 4 stack and an AirTouch 5 stack (real connect()+init(),
real sockets) are driven by scripted consoles that describe the SAME symbolic installation and state,
restricted to what both protocols express (integer set-points, common enum codes, no bypass, equal
heat/cool limits). One shared getter (solver-enumerated) must return equal values, and one shared
request (solver-enumerated call and argument) must be accepted or refused by both and, when accepted,
carry the same protocol meaning on its own wire format (each read with its own reference reader).
"""
from __future__ import annotations

import datetime
import importlib

from ref import at4 as r4
from ref import at5 as r5
from sx import shims
from sx.values import SymBool, sym_and, sym_or

from .common import ApiRig, Gen
from .console import Installation

PID = "C19"
WALL_BUDGET = {"quick": 900, "thorough": 5400}
SAMPLE_RATE = {"quick": 0.02, "thorough": 0.002}
CHUNK = 24
STUBS = ["asyncio.open_connection -> FakeNet", "two scripted reference consoles (AT4 and AT5) describing the same symbolic installation/state", "loop -> VLoop"]
OUTSIDE = ["installations with more than one AC / two zones", "states only one protocol can express (0.1 degC set-points, away/sleep, intelligent auto, bypass, different heat/cool limits)",
           "one getter and one request are inspected per path (solver-enumerated)"]
ASSUMPTIONS = ["documented differences are excluded by construction of the shared state: set-point resolution, away/sleep and intelligent-auto support, bypass reporting, per-mode limits, AT4 zone turbo support flag (AT5 zones always offer turbo)"]

AC_GETTERS = ["power_state", "selected_mode", "active_mode", "selected_fan_speed", "active_fan_speed", "current_temperature", "target_temperature",
              "min_target_temperature", "max_target_temperature", "spill_state", "error_code", "supported_modes", "supported_fan_speeds", "name",
              "on_timer", "off_timer"]
ZONE_GETTERS = ["power_state", "control_method", "has_temp_sensor", "sensor_battery_status", "current_temperature", "target_temperature",
                "current_damper_percentage", "spill_active", "name"]
CALLS = ["ac_power", "ac_mode", "ac_fan", "ac_temp", "timer_time", "timer_clear", "timer_duration", "zone_power", "zone_temp", "zone_damper"]


def bounds(tier):
    return {"acs": 1, "zones": 2, "zone_order_blocks": "2..3 contiguous zones" if tier == "quick" else "2..6 contiguous zones at every start", "set_point": "integer 10..35", "temperature_value": "0..2000", "mode_bitmap": "5 free bits", "fan_bitmap": "7 free bits (AT5 bit 8 = 0)"}


def instances(tier):
    out = [{"kind": "getter", "entity": "ac"}, {"kind": "getter", "entity": "zone"}, {"kind": "error_history"}]
    for c in CALLS:
        out.append({"kind": "request", "call": c})
    out.append({"kind": "handshake_extra"})
    out.append({"kind": "zone_order"})
    out.append({"kind": "zone_order", "old_format": True})       # AT4 ability record without group bitmap; names listed out of order
    if tier == "thorough":
        out.append({"kind": "zone_order", "max_count": 6})
        out.append({"kind": "zone_order", "old_format": True, "max_count": 6})
    return out


def expect_labels(tier):
    return ["equal_getters", "same_decision", "same_meaning"]


def _b(x):
    return bool(x) if isinstance(x, SymBool) else x


def _norm(v):
    """Comparable plain value of a getter result (enums by name)."""
    import enum
    if isinstance(v, enum.Enum):
        return v.name
    if isinstance(v, list):
        return sorted(_norm(x) for x in v)         # sequences of supported enum members: order is not part of the contract
    if isinstance(v, tuple):
        return tuple(_norm(x) for x in v)
    return v


AC_DEPENDS = {"power_state": ["power"], "selected_mode": ["mode"], "active_mode": ["mode"], "selected_fan_speed": ["fan"], "active_fan_speed": ["fan"],
              "current_temperature": ["V"], "target_temperature": ["sp"], "min_target_temperature": ["lohi", "mode"], "max_target_temperature": ["lohi", "mode"],
              "spill_state": ["spill"], "error_code": ["err"], "supported_modes": ["mode_bits"], "supported_fan_speeds": ["fan_bits"], "name": ["acname"],
              "on_timer": ["timers"], "off_timer": ["timers"]}
ZONE_DEPENDS = {"power_state": ["zpower"], "control_method": ["zmethod"], "has_temp_sensor": ["zsensor"], "sensor_battery_status": ["zbatt"],
                "current_temperature": ["zV", "zsensor"], "target_temperature": ["zsp", "zsensor"], "current_damper_percentage": ["zpct"],
                "spill_active": ["zspill"], "name": ["zname"]}


def _shared_state(ctx, free):
    """The shared installation/state; only the fields named in `free` are symbolic (the rest fixed),
    so a path pays for the fields its getter / request depends on."""
    st = dict(ac=0, power=1, mode=4, fan=2, sp=22, V=740, spill=0, timer=0, err=0, mode_bits=0b11111, fan_bits=0b1111111, lo=16, hi=30,
              timers=(0, 6, 30, 1, 0, 0), zpower=1, zmethod=1, zpct=50, zsensor=1, zbatt=0, zsp=22, zV=730, zspill=0)
    for f in free:
        if f == "power":
            st["power"] = ctx.int("power", 0, 1)
        elif f == "mode":
            st["mode"] = ctx.int("mode", 0, 9)
            ctx.assume(sym_or(*[st["mode"] == c for c in r4.AC_MODE]))
        elif f == "fan":
            st["fan"] = ctx.int("fan", 0, 6)
        elif f == "sp":
            st["sp"] = ctx.int("sp", 10, 35)
        elif f == "V":
            st["V"] = ctx.int("V", 0, 2000)
        elif f == "spill":
            st["spill"] = ctx.bits("spill", 1)
        elif f == "err":
            st["err"] = ctx.int("err", 0, 65535)
        elif f == "mode_bits":
            st["mode_bits"] = ctx.bits("mode_bits", 5)
        elif f == "fan_bits":
            st["fan_bits"] = ctx.bits("fan_bits", 7)
        elif f == "lohi":
            st["lo"], st["hi"] = ctx.int("lo", 10, 35), ctx.int("hi", 10, 35)
            ctx.assume(st["lo"] <= st["hi"])
        elif f == "timers":
            st["timers"] = (ctx.bits("on_dis", 1), ctx.int("on_h", 0, 23), ctx.int("on_m", 0, 59), ctx.bits("off_dis", 1), ctx.int("off_h", 0, 23), ctx.int("off_m", 0, 59))
        elif f == "zpower":
            st["zpower"] = ctx.int("zpower", 0, 3)
            ctx.assume(st["zpower"] != 2)
        elif f == "zmethod":
            st["zmethod"] = ctx.bits("zmethod", 1)
        elif f == "zpct":
            st["zpct"] = ctx.int("zpct", 0, 100)
        elif f == "zsensor":
            st["zsensor"] = ctx.bits("zsensor", 1)
        elif f == "zbatt":
            st["zbatt"] = ctx.bits("zbatt", 1)
        elif f == "zsp":
            st["zsp"] = ctx.int("zsp", 10, 35)
        elif f == "zV":
            st["zV"] = ctx.int("zV", 0, 2000)
        elif f == "zspill":
            st["zspill"] = ctx.bits("zspill", 1)
        elif f in ("zname", "acname"):
            # a free three-byte name: any valid UTF-8 without NUL (blanks, multi-byte characters, ...)
            from sx.utf8 import utf8_valid
            nb = [ctx.byte(f"{f}{i}") for i in range(3)]
            ctx.assume(utf8_valid(nb))
            ctx.assume(sym_and(*[b != 0 for b in nb]))
            st[f] = nb
    return st


def _installation(gen, st):
    inst = Installation(gen)
    a = st["ac"]
    if gen == 4:
        inst.acs.append({"number": a, "name": st.get("acname", "Unit"), "start": 0, "count": 2, "mode_bits": st["mode_bits"], "fan_bits": st["fan_bits"],
                         "limits": (st["lo"], st["hi"]), "group_bits": 0b11})
        inst.ac_status[a] = r4.build_ac_status(a, st["power"], st["mode"], st["fan"], st["spill"], st["timer"], st["sp"], st["V"], st["err"])
        inst.zone_status[0] = r4.build_group_status(0, st["zpower"], st["zmethod"], st["zpct"], st["zbatt"], 1, st["zsp"], st["zsensor"], st["zV"], st["zspill"])
        inst.zone_status[1] = r4.build_group_status(1, 0, 0, 10, 0, 1, 20, 1, 700, 0)
    else:
        inst.acs.append({"number": a, "name": st.get("acname", "Unit"), "start": 0, "count": 2, "mode_bits": st["mode_bits"], "fan_bits": st["fan_bits"],
                         "limits": (st["lo"], st["hi"], st["lo"], st["hi"])})
        inst.ac_status[a] = r5.build_ac_status(a, st["power"], st["mode"], st["fan"], st["sp"] * 10 - 100, 0, 0, st["spill"], st["timer"], st["V"], st["err"])
        from sx.values import sym_ite
        zsp_raw = sym_ite(st["zsensor"] == 1, st["zsp"] * 10 - 100, 0xFF)   # a zone without sensor has no set-point (vendor example: 0xFF)
        inst.zone_status[0] = r5.build_zone_status(0, st["zpower"], st["zmethod"], st["zpct"], zsp_raw, st["zsensor"], st["zV"], st["zspill"], st["zbatt"])
        inst.zone_status[1] = r5.build_zone_status(1, 0, 0, 10, 100, 1, 700, 0, 0)
    inst.zones = {0: st.get("zname", "Living"), 1: "Küche"}
    inst.timers[a] = st["timers"]
    inst.errors[a] = "ER: FFFE"
    return inst


def _get(A, acobj, zone, entity, getter):
    if entity == "ac":
        if getter == "error_code":
            ei = acobj.error_info
            return None if ei is None else (ei.code, ei.description)
        if getter == "on_timer":
            t = acobj.next_quick_timer(A.AcTimerType.ON_TIMER)
            return None if t is None else (t.hour, t.minute)
        if getter == "off_timer":
            t = acobj.next_quick_timer(A.AcTimerType.OFF_TIMER)
            return None if t is None else (t.hour, t.minute)
        return getattr(acobj, getter)
    return getattr(zone, getter)


def _eq(a, b):
    from sx.values import SymFloat, SymInt, Utf8Str
    a, b = _norm(a), _norm(b)
    if isinstance(a, (tuple, list)) and isinstance(b, (tuple, list)):
        if len(a) != len(b):
            return False
        return sym_and(*[_eq(x, y) for x, y in zip(a, b)])
    if a is None or b is None:
        return a is None and b is None
    return a == b


def _meaning(gen, call, fr):
    """Protocol meaning of the written frame as a comparable tuple (own reference reader)."""
    d = fr["data"]
    if call.startswith("ac_"):
        if gen == 4:
            c = r4.ac_control(d)
            names = (r4.CTRL_AC_POWER, r4.CTRL_AC_MODE, r4.CTRL_AC_FAN)
            sp = ("set", c["sp_value"]) if _b(c["sp_type"] == 1) else ("keep",) if _b(c["sp_type"] == 0) else ("step", c["sp_type"])
            return (c["ac_number"], names[0].get(_c(c["power_code"]), "KEEP"), names[1].get(_c(c["mode_code"]), "KEEP"), names[2].get(_c(c["fan_code"]), "KEEP"), sp)
        c = r5.ac_control_record(d[8:12])
        sp = ("set", (c["sp_value"] + 100)) if _b(c["sp_control"] == 0x40) else ("keep",)
        if sp[0] == "set":
            # tenths of a degree; comparable with AT4 whole degrees only when a multiple of 10
            sp = ("set10", sp[1])
        return (c["ac_number"], r5.CTRL_AC_POWER.get(_c(c["power_code"]), "KEEP"), r5.CTRL_AC_MODE.get(_c(c["mode_code"]), "KEEP"),
                r5.CTRL_AC_FAN.get(_c(c["fan_code"]), "KEEP"), sp)
    if call.startswith("zone_"):
        if gen == 4:
            c = r4.group_control(d)
            return (c["group_number"], r4.CTRL_GROUP_POWER.get(_c(c["power_code"]), "KEEP"), r4.CTRL_GROUP_SETTING.get(_c(c["setting_code"]), "KEEP"), c["value"])
        c = r5.zone_control_record(d[8:12])
        return (c["zone_number"], r5.CTRL_ZONE_POWER.get(_c(c["power_code"]), "KEEP"), r5.CTRL_ZONE_SETTING.get(_c(c["setting_code"]), "KEEP"), c["value"])
    if call == "timer_duration":
        return (d[2], d[3], d[4], d[5])
    # timer control: (ac, on(dis,h,m), off(dis,h,m))
    if gen == 4:
        rec = d[0:4]
        ac = 0
    else:
        rec = d[9:13]
        ac = d[8]
    return (ac, rec[0] >> 7, rec[0] & 0x1F, rec[1] & 0x3F, rec[2] >> 7, rec[2] & 0x1F, rec[3] & 0x3F)


def _c(x):
    from sx.values import SymInt
    return x.__index__() if isinstance(x, SymInt) else x


def _error_history(ctx, p):
    """Same status/error/version history on both stacks: error appears (console supplies the text), another attribute
    changes while the error persists, the error clears, a version frame flips only the update flag."""
    A = importlib.import_module("pyairtouch.api")
    code = ctx.int("code", 1, 65535)
    sp2 = ctx.int("sp2", 10, 35)
    upd = ctx.bits("upd", 1)
    results = {}
    for gen in (4, 5):
        g = Gen(gen)
        st = _shared_state(ctx, []) if gen == 4 else results["st"]
        results["st"] = st
        inst = _installation(gen, st)
        snaps = []
        with ApiRig(ctx, g, inst) as rig:
            con = rig.console
            rig.start()
            rig.run(1.0)
            ctx.check(rig.init_result is True, "equal_getters", detail=f"AT{gen} handshake failed")
            acobj = rig.ac(0)

            def snap():
                ei = acobj.error_info
                snaps.append((None if ei is None else (ei.code, ei.description), acobj.target_temperature, rig.at.update_available,
                              list(rig.at.console_versions)))

            def push_status(sp, err):
                s2 = dict(st, sp=sp, err=err)
                i2 = _installation(gen, s2)
                con.inst.ac_status = i2.ac_status
                con.push(con.ac_status_frame(pid=0x50))
                rig.run(rig.loop.vt_now() + 1.0)

            push_status(st["sp"], code)
            snap()
            push_status(sp2, code)
            snap()
            push_status(sp2, 0)
            snap()
            con.inst.version = (True, con.inst.version[1])
            raw = con.version_frame(pid=0x51)
            from ref import framing
            data = list(raw[framing.header_len(gen):-2])
            data[2] = upd
            con.push(con.frame(0x1F, data, pid=0x51))
            rig.run(rig.loop.vt_now() + 1.0)
            snap()
        results[gen] = snaps
    for i, (a, b) in enumerate(zip(results[4], results[5])):
        ctx.check(_eq(a[0], b[0]), "equal_getters", detail={"step": i, "what": "error_info", "at4": repr(a[0]), "at5": repr(b[0])})
        ctx.check(_eq(a[1], b[1]), "equal_getters", detail={"step": i, "what": "target_temperature"})
        ctx.check(_eq(a[2], b[2]), "equal_getters", detail={"step": i, "what": "update_available", "at4": repr(a[2]), "at5": repr(b[2])})
    for lab in expect_labels("quick"):
        ctx.reach(lab)


def _handshake_extra(ctx, p):
    """Both consoles interleave the same unsolicited status report (other values than their answers carry) at the same
    place of the handshake: whatever the client makes of it, it makes the same of it over both generations."""
    from .console import STEPS
    step = STEPS[2 + ctx.choice("step", 4)]                # around the ability / AC status / timer status / zone status answer
    pos = ("before", "after")[ctx.choice("pos", 2)]
    what = ("ac", "zone")[ctx.choice("what", 2)]
    st = _shared_state(ctx, [])
    other = dict(st, power=0, sp=18, mode=1, fan=4, zpower=0, zpct=15, zsp=19)
    snaps = {}
    for gen in (4, 5):
        g = Gen(gen)
        inst = _installation(gen, st)
        oth = _installation(gen, other)
        with ApiRig(ctx, g, inst) as rig:
            con = rig.console
            keep_ac, keep_zone = dict(inst.ac_status), dict(inst.zone_status)
            if what == "ac":
                inst.ac_status = dict(oth.ac_status)
                raw = con.ac_status_frame(pid=0x5A)
                inst.ac_status = keep_ac
            else:
                inst.zone_status = dict(oth.zone_status)
                raw = con.zone_status_frame(pid=0x5A)
                inst.zone_status = keep_zone
            con.extra[step] = [(pos, raw)]
            rig.start()
            rig.run(2.0)
            ctx.check(rig.init_result is True, "equal_getters", detail=f"AT{gen} handshake failed with an unsolicited report interleaved")
            a, z = rig.ac(0), rig.zone(0)
            snaps[gen] = (_norm(a.power_state), a.target_temperature, _norm(a.selected_mode), _norm(a.selected_fan_speed), _norm(z.power_state),
                          z.current_damper_percentage, z.target_temperature)
    names = ("ac.power_state", "ac.target_temperature", "ac.selected_mode", "ac.selected_fan_speed", "zone.power_state", "zone.damper", "zone.target_temperature")
    for nm, x, y in zip(names, snaps[4], snaps[5]):
        ctx.check(_eq(x, y), "equal_getters", detail={"step": step, "position": pos, "report": what, "attribute": nm, "at4": repr(x), "at5": repr(y)})
    for lab in expect_labels("quick"):
        ctx.reach(lab)


def _zone_order(ctx, p):
    """The same contiguous block of zones (solver-chosen start and count) belongs to the AC on both consoles: the AC exposes the
    same sequence of zones (and the AirTouch the same sequence of air-conditioners) over both generations."""
    mc = p.get("max_count", 3)
    start = ctx.choice("start", 17 - mc)
    count = 2 + ctx.choice("count", mc - 1)
    old = bool(p.get("old_format"))
    if old:
        start = 0                     # a single AC of an old console owns all groups
    rot = ctx.choice("listing", count) if old else 0   # the console lists its zone names starting at this position
    seqs = {}
    for gen in (4, 5):
        g = Gen(gen)
        inst = Installation(gen)
        nums = list(range(start, start + count))
        inst.acs.append({"number": 0, "name": "Unit", "start": start, "count": count, "mode_bits": 0b11111, "fan_bits": 0b1111111,
                         "limits": (16, 30) if gen == 4 else (16, 30, 16, 30), "group_bits": (sum(1 << n for n in nums) if (gen == 4 and not old) else None)})
        for n in nums[rot:] + nums[:rot]:
            inst.zones[n] = f"Z{n}"
            inst.zone_status[n] = (r4.build_group_status(n, 1, 1, 100, 0, 1, 22, 1, 730, 0) if gen == 4 else r5.build_zone_status(n, 1, 1, 100, 120, 1, 730, 0, 0))
        inst.ac_status[0] = (r4.build_ac_status(0, 1, 4, 2, 0, 0, 22, 740, 0) if gen == 4 else r5.build_ac_status(0, 1, 4, 2, 120, 0, 0, 0, 0, 740, 0))
        inst.timers[0] = (1, 0, 0, 1, 0, 0)
        with ApiRig(ctx, g, inst) as rig:
            rig.start()
            rig.run(1.0)
            ctx.check(rig.init_result is True, "equal_getters", detail=f"AT{gen} handshake failed")
            seqs[gen] = [[z.zone_id for z in a.zones] for a in rig.at.air_conditioners]
    ctx.check(seqs[4] == seqs[5], "equal_getters", detail={"attribute": "air_conditioners[].zones (sequence)", "start": start, "count": count, "at4": seqs[4], "at5": seqs[5]})
    for lab in expect_labels("quick"):
        ctx.reach(lab)


def run(ctx, p):
    A = importlib.import_module("pyairtouch.api")
    kind = p["kind"]
    if kind == "zone_order":
        return _zone_order(ctx, p)
    if kind == "error_history":
        return _error_history(ctx, p)
    if kind == "handshake_extra":
        return _handshake_extra(ctx, p)
    entity = p.get("entity")
    if kind == "getter":
        getters = AC_GETTERS if entity == "ac" else ZONE_GETTERS
        getter = getters[ctx.choice("getter", len(getters))]
        st = _shared_state(ctx, (AC_DEPENDS if entity == "ac" else ZONE_DEPENDS)[getter])
    else:
        st = _shared_state(ctx, [])
        call = p["call"]
        args = {}
        if call == "ac_power":
            members = [A.AcPowerControl.TOGGLE, A.AcPowerControl.TURN_OFF, A.AcPowerControl.TURN_ON]
            args["v"] = members[ctx.choice("arg", 3)]
        elif call == "ac_mode":
            st["mode_bits"] = ctx.bits("mode_bits", 5)
            args["v"] = list(A.AcMode)[ctx.choice("arg", 5)]
            args["power_on"] = bool(ctx.choice("power_on", 2))
        elif call == "ac_fan":
            st["fan_bits"] = ctx.bits("fan_bits", 7)
            args["v"] = [f for f in A.AcFanSpeed if f.name != "INTELLIGENT_AUTO"][ctx.choice("arg", 7)]
        elif call in ("ac_temp", "zone_temp"):
            args["deg"] = ctx.int("deg", 5 if call == "ac_temp" else 10, 40 if call == "ac_temp" else 35)      # whole degrees: expressible in both
        elif call in ("timer_time", "timer_clear"):
            st["timers"] = (ctx.bits("on_dis", 1), ctx.int("on_h", 0, 23), ctx.int("on_m", 0, 59), ctx.bits("off_dis", 1), ctx.int("off_h", 0, 23), ctx.int("off_m", 0, 59))
            args["tt"] = list(A.AcTimerType)[ctx.choice("arg", 2)]
            args["h"], args["m"] = ctx.int("h", 0, 23), ctx.int("m", 0, 59)
        elif call == "timer_duration":
            args["tt"] = list(A.AcTimerType)[ctx.choice("arg", 2)]
            args["mins"] = ctx.int("mins", 0, 2879)
            args["secs"] = ctx.int("secs", 0, 59)          # a seconds part: both generations treat it alike
        elif call == "zone_power":
            args["v"] = list(A.ZonePowerState)[ctx.choice("arg", 3)]
        elif call == "zone_damper":
            args["pct"] = ctx.int("pct", -5, 105)
    results = {}
    for gen in (4, 5):
        g = Gen(gen)
        inst = _installation(gen, st)
        with ApiRig(ctx, g, inst) as rig:
            rig.start()
            rig.run(1.0)
            ctx.check(rig.init_result is True, "equal_getters", detail=f"AT{gen} handshake failed")
            acobj, zone = rig.ac(0), rig.zone(0)
            if kind == "getter":
                results[gen] = _get(A, acobj, zone, entity, getter)
            else:
                con = rig.console
                n0 = len(con.requests)
                res = {}

                async def go():
                    try:
                        if call == "ac_power":
                            await acobj.set_power(args["v"])
                        elif call == "ac_mode":
                            await acobj.set_mode(args["v"], power_on=args["power_on"])
                        elif call == "ac_fan":
                            await acobj.set_fan_speed(args["v"])
                        elif call == "ac_temp":
                            await acobj.set_target_temperature(args["deg"] * 1.0)
                        elif call == "timer_time":
                            v = shims.SxTime(args["h"], args["m"]) if ctx.symbolic else datetime.time(args["h"], args["m"])
                            await acobj.set_quick_timer(args["tt"], v)
                        elif call == "timer_clear":
                            await acobj.clear_quick_timer(args["tt"])
                        elif call == "timer_duration":
                            v = shims.SxTimedelta.symbolic(args["mins"] * 60 + args["secs"]) if ctx.symbolic else datetime.timedelta(minutes=args["mins"], seconds=args["secs"])
                            await acobj.set_quick_timer(args["tt"], v)
                        elif call == "zone_power":
                            await zone.set_power(args["v"])
                        elif call == "zone_temp":
                            await zone.set_target_temperature(args["deg"] * 1.0)
                        elif call == "zone_damper":
                            await zone.set_damper_percentage(args["pct"])
                        res["r"] = "ok"
                    except ValueError:
                        res["r"] = "ValueError"
                    except Exception as e:  # noqa: BLE001
                        res["r"] = type(e).__name__

                rig.spawn(go())
                rig.run(2.0)
                frames = [fr for _, k, fr in con.requests[n0:]]
                results[gen] = (res.get("r"), [_meaning(gen, call, fr) for fr in frames])
    if kind == "getter":
        ctx.observe("getter", getter)
        ctx.check(_eq(results[4], results[5]), "equal_getters", detail={"entity": entity, "getter": getter, "at4": repr(_norm(results[4]))[:80], "at5": repr(_norm(results[5]))[:80]})
    else:
        r4_, m4 = results[4]
        r5_, m5 = results[5]
        detail = {"call": call, "at4": r4_, "at5": r5_}
        ctx.check(r4_ == r5_, "same_decision", detail=detail)
        if r4_ == "ok":
            ctx.check(len(m4) == 1 and len(m5) == 1, "same_meaning", detail=dict(detail, frames=(len(m4), len(m5))))
            a, b = m4[0], m5[0]
            if call in ("ac_temp",):
                # AT4 whole degrees k vs AT5 tenths K: same temperature
                ok = sym_and(a[0] == b[0], a[1] == b[1], a[2] == b[2], a[3] == b[3], a[4][0] == "set", b[4][0] == "set10", a[4][1] * 10 == b[4][1])
            elif call == "zone_temp":
                ok = sym_and(a[0] == b[0], a[1] == b[1], a[2] == b[2], a[3] * 10 == b[3] + 100)
            elif call == "zone_power":
                ok = sym_and(a[0] == b[0], a[1] == b[1], a[2] == b[2])
            else:
                ok = _eq(tuple(a), tuple(b))
            ctx.check(ok, "same_meaning", detail=dict(detail, m4=repr(a)[:120], m5=repr(b)[:120]))
    for lab in expect_labels("quick"):
        ctx.reach(lab)
