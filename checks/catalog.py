"""Catalogue of all 36 message/request classes (18 per generation) with an example instance
each and the payload bytes the *reference* (vendor document / documented layout) assigns to it.
`i` (0..15) makes instances distinguishable on the wire."""
from __future__ import annotations

import datetime

from ref import at4 as r4
from ref import at5 as r5
from ref import framing


def _err_text(i):
    """Error texts of different lengths for different instances (i = 0 keeps the plain one)."""
    return "ER: FFFE" + "!" * (i % 3)


def _ext(sub, payload):
    return framing.ext(sub, payload)


def at4_catalog(g):
    gc, gs = g.m("x2A_group_ctrl"), g.m("x2B_group_status")
    ac, st = g.m("x2C_ac_ctrl"), g.m("x2D_ac_status")
    tc, ts = g.m("x36_ac_timer_ctrl"), g.m("x37_ac_timer_status")
    er, ab, nm = g.m("x1FFF10_err_info"), g.m("x1FFF11_ac_ability"), g.m("x1FFF12_group_names")
    qt, cv = g.m("x1FFF20_quick_timer"), g.m("x1FFF30_console_ver")
    E = g.ext.ExtendedMessage
    modes = {ab.AcModeControl.AUTO: True, ab.AcModeControl.HEAT: True, ab.AcModeControl.DRY: False,
             ab.AcModeControl.FAN: True, ab.AcModeControl.COOL: True}
    fans = {ab.AcFanSpeedControl.AUTO: True, ab.AcFanSpeedControl.QUIET: False, ab.AcFanSpeedControl.LOW: True,
            ab.AcFanSpeedControl.MEDIUM: True, ab.AcFanSpeedControl.HIGH: True, ab.AcFanSpeedControl.POWERFUL: False,
            ab.AcFanSpeedControl.TURBO: False}

    def timers(i):
        return [ts.AcTimerStatusData(ac_number=i % 4, on_timer=ts.AcTimerState(False, 7, 30 + i % 8),
                                     off_timer=ts.AcTimerState(True, 0, 0))]

    def timers_ref(i):
        states = [(0, 0, 0, 0, 0, 0)] * 4
        states[i % 4] = (0, 7, 30 + i % 8, 1, 0, 0)
        return r4.build_timer_status(states)

    cat = [
        ("GroupControlMessage", lambda i: gc.GroupControlMessage(i, gc.GroupPowerControl.TURN_ON, gc.GroupControlMethod.UNCHANGED, None),
         0x2A, lambda i: [i, 0x03, 0x00, 0x00]),
        ("GroupStatusMessage", lambda i: gs.GroupStatusMessage([gs.GroupStatusData(i, gs.GroupPowerState.ON, gs.GroupControlMethod.TEMPERATURE,
                                                                                    False, True, True, gs.SensorBatteryStatus.NORMAL, 23.5, 80, 24)]),
         0x2B, lambda i: r4.build_group_status(i, 1, 1, 80, 0, 1, 24, 1, 735, 0)),
        ("GroupStatusRequest", lambda i: gs.GroupStatusRequest(), 0x2B, lambda i: []),
        ("AcControlMessage", lambda i: ac.AcControlMessage(i, ac.AcPowerControl.TURN_ON, ac.AcModeControl.UNCHANGED, ac.AcFanSpeedControl.UNCHANGED, None),
         0x2C, lambda i: [0xC0 | i, 0xFF, 0x3F, 0x00]),
        ("AcStatusMessage", lambda i: st.AcStatusMessage([st.AcStatusData(i % 4, st.AcPowerState.ON, st.AcMode.COOL, st.AcFanSpeed.LOW, False, True, 22, 25.5, 0)]),
         0x2D, lambda i: r4.build_ac_status(i % 4, 1, 4, 2, 0, 1, 22, 755, 0)),
        ("AcStatusRequest", lambda i: st.AcStatusRequest(), 0x2D, lambda i: []),
        ("AcTimerControlMessage", lambda i: tc.AcTimerControlMessage(timers(i)), 0x36, timers_ref),
        ("AcTimerStatusMessage", lambda i: ts.AcTimerStatusMessage([ts.AcTimerStatusData(n, *(
            (ts.AcTimerState(False, 7, 30 + i % 8), ts.AcTimerState(True, 0, 0)) if n == i % 4 else (ts.AcTimerState(False, 0, 0), ts.AcTimerState(False, 0, 0))))
            for n in range(4)]), 0x37, timers_ref),
        ("AcTimerStatusRequest", lambda i: ts.AcTimerStatusRequest(), 0x37, lambda i: []),
        ("AcErrorInformationMessage", lambda i: E(er.AcErrorInformationMessage(i % 4, _err_text(i))), 0x1F,
         lambda i: _ext(0xFF10, r4.build_error(i % 4, _err_text(i)))),
        ("AcErrorInformationRequest", lambda i: E(er.AcErrorInformationRequest(i % 4)), 0x1F, lambda i: _ext(0xFF10, [i % 4])),
        ("AcAbilityMessage", lambda i: E(ab.AcAbilityMessage([ab.AcAbility(i % 4, "UNIT", modes, fans, 17, 31, {0, 1, 9}, 0, 4)])), 0x1F,
         lambda i: _ext(0xFF11, r4.build_ability(i % 4, "UNIT", 0, 4, 0b11011, 0b0011101, 17, 31, 0x0203))),
        ("AcAbilityRequest", lambda i: E(ab.AcAbilityRequest(i % 4)), 0x1F, lambda i: _ext(0xFF11, [i % 4])),
        ("GroupNamesMessage", lambda i: E(nm.GroupNamesMessage({i: "Living", (i + 1) % 16: "Küche"})), 0x1F,
         lambda i: _ext(0xFF12, r4.build_group_name(i, "Living") + r4.build_group_name((i + 1) % 16, "Küche"))),
        ("GroupNamesRequest", lambda i: E(nm.GroupNamesRequest("ALL")), 0x1F, lambda i: _ext(0xFF12, [])),
        ("QuickTimerMessage", lambda i: E(qt.QuickTimerMessage(i % 4, qt.TimerType.ON_TIMER, datetime.timedelta(hours=2, minutes=5))), 0x1F,
         lambda i: _ext(0xFF20, [i % 4, 1, 2, 5])),
        ("ConsoleVersionMessage", lambda i: E(cv.ConsoleVersionMessage(True, ["1.3.3", "1.3.%d" % i])), 0x1F,
         lambda i: _ext(0xFF30, r4.build_version(True, "1.3.3|1.3.%d" % i))),
        ("ConsoleVersionRequest", lambda i: E(cv.ConsoleVersionRequest()), 0x1F, lambda i: _ext(0xFF30, [])),
    ]
    return cat


def at5_catalog(g):
    zc, zs = g.m("xC020_zone_ctrl"), g.m("xC021_zone_status")
    ac, st = g.m("xC022_ac_ctrl"), g.m("xC023_ac_status")
    tc, ts = g.m("xC032_ac_timer_ctrl"), g.m("xC033_ac_timer_status")
    er, ab, nm = g.m("x1FFF10_err_info"), g.m("x1FFF11_ac_ability"), g.m("x1FFF13_zone_names")
    qt, cv = g.m("x1FFF49_quick_timer"), g.m("x1FFF30_console_ver")
    C = g.m("xC0_ctrl_status").ControlStatusMessage
    E = g.ext.ExtendedMessage
    modes = {ab.AcModeControl.AUTO: True, ab.AcModeControl.HEAT: True, ab.AcModeControl.DRY: False,
             ab.AcModeControl.FAN: True, ab.AcModeControl.COOL: True}
    fans = {ab.AcFanSpeedControl.AUTO: True, ab.AcFanSpeedControl.QUIET: False, ab.AcFanSpeedControl.LOW: True,
            ab.AcFanSpeedControl.MEDIUM: True, ab.AcFanSpeedControl.HIGH: True, ab.AcFanSpeedControl.POWERFUL: False,
            ab.AcFanSpeedControl.TURBO: False, ab.AcFanSpeedControl.INTELLIGENT_AUTO: True}

    def c0(sub, replen, recs):
        flat = [b for r in recs for b in r]
        return framing.c0(sub, [], replen if recs else 0, len(recs), flat)

    cat = [
        ("ZoneControlMessage", lambda i: C(zc.ZoneControlMessage([zc.ZoneControlData(i, zc.ZonePowerControl.TURN_ON, None)])), 0xC0,
         lambda i: c0(0x20, 4, [[i, 0x03, 0xFF, 0x00]])),
        ("ZoneStatusMessage", lambda i: C(zs.ZoneStatusMessage([zs.ZoneStatusData(i, zs.ZonePowerState.ON, False, zs.ZoneControlMethod.TEMPERATURE, True,
                                                                                  zs.SensorBatteryStatus.NORMAL, 24.3, 100, 25.0)])), 0xC0,
         lambda i: c0(0x21, 8, [r5.build_zone_status(i, 1, 1, 100, 150, 1, 743, 0, 0)])),
        ("ZoneStatusRequest", lambda i: C(zs.ZoneStatusRequest()), 0xC0, lambda i: c0(0x21, 0, [])),
        ("AcControlMessage", lambda i: C(ac.AcControlMessage([ac.AcControlData(i, ac.AcPowerControl.TURN_ON, ac.AcModeControl.UNCHANGED,
                                                                              ac.AcFanSpeedControl.UNCHANGED, None)])), 0xC0,
         lambda i: c0(0x22, 4, [[0x30 | i, 0xFF, 0x00, 0xFF]])),
        ("AcStatusMessage", lambda i: C(st.AcStatusMessage([st.AcStatusData(i, st.AcPowerState.ON, st.AcMode.HEAT, st.AcFanSpeed.LOW, False, False, False, True,
                                                                            22.0, 23.0, 0)])), 0xC0,
         lambda i: c0(0x23, 10, [r5.build_ac_status(i, 1, 1, 2, 120, 0, 0, 0, 1, 730, 0)])),
        ("AcStatusRequest", lambda i: C(st.AcStatusRequest()), 0xC0, lambda i: c0(0x23, 0, [])),
        ("AcTimerControlMessage", lambda i: C(tc.AcTimerControlMessage([ts.AcTimerStatusData(i, ts.AcTimerState(False, 7, 31), ts.AcTimerState(True, 0, 0))])), 0xC0,
         lambda i: c0(0x32, 9, [r5.build_timer_status(i, 0, 7, 31, 1, 0, 0)])),
        ("AcTimerStatusMessage", lambda i: C(ts.AcTimerStatusMessage([ts.AcTimerStatusData(i, ts.AcTimerState(False, 7, 31), ts.AcTimerState(True, 0, 0))])), 0xC0,
         lambda i: c0(0x33, 9, [r5.build_timer_status(i, 0, 7, 31, 1, 0, 0)])),
        ("AcTimerStatusRequest", lambda i: C(ts.AcTimerStatusRequest()), 0xC0, lambda i: c0(0x33, 0, [])),
        ("AcErrorInformationMessage", lambda i: E(er.AcErrorInformationMessage(i, _err_text(i))), 0x1F, lambda i: _ext(0xFF10, r5.build_error(i, _err_text(i)))),
        ("AcErrorInformationRequest", lambda i: E(er.AcErrorInformationRequest(i)), 0x1F, lambda i: _ext(0xFF10, [i])),
        ("AcAbilityMessage", lambda i: E(ab.AcAbilityMessage([ab.AcAbility(i, "UNIT", 0, 4, modes, fans, 16, 31, 18, 30)])), 0x1F,
         lambda i: _ext(0xFF11, r5.build_ability(i, "UNIT", 0, 4, 0b11011, 0b10011101, 16, 31, 18, 30))),
        ("AcAbilityRequest", lambda i: E(ab.AcAbilityRequest(i)), 0x1F, lambda i: _ext(0xFF11, [i])),
        ("ZoneNamesMessage", lambda i: E(nm.ZoneNamesMessage({i: "Living", (i + 1) % 16: "Küche"})), 0x1F,
         lambda i: _ext(0xFF13, r5.build_zone_name(i, "Living") + r5.build_zone_name((i + 1) % 16, "Küche"))),
        ("ZoneNamesRequest", lambda i: E(nm.ZoneNamesRequest("ALL")), 0x1F, lambda i: _ext(0xFF13, [])),
        ("QuickTimerMessage", lambda i: E(qt.QuickTimerMessage(i, qt.TimerType.OFF_TIMER, datetime.timedelta(hours=1, minutes=45))), 0x1F,
         lambda i: _ext(0xFF49, [i, 0, 1, 45])),
        ("ConsoleVersionMessage", lambda i: E(cv.ConsoleVersionMessage(False, ["1.0.3", "1.0.%d" % i])), 0x1F,
         lambda i: _ext(0xFF30, r5.build_version(False, "1.0.3,1.0.%d" % i))),
        ("ConsoleVersionRequest", lambda i: E(cv.ConsoleVersionRequest()), 0x1F, lambda i: _ext(0xFF30, [])),
    ]
    return cat


def catalog(g):
    return at4_catalog(g) if g.n == 4 else at5_catalog(g)


def to_address(mtype):
    """Document 3.b: 0x80, or 0x90 for extended messages."""
    return 0x90 if mtype == 0x1F else 0x80


def ref_frame(gen_n, entry, i, pid):
    name, make, mtype, data = entry
    return framing.frame(gen_n, to_address(mtype), 0xB0, pid, mtype, data(i))
