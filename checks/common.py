"""Helpers shared by the harnesses: generation handles, socket rigs, symbolic-safe comparisons."""
from __future__ import annotations

import importlib

from ref import framing
from sx.net import FakeNet
from sx.values import SymBool, SymBytes, SymInt, sym_and, sym_not, sym_or
from sx.vloop import make_loop


class Gen:
    """Handle on one protocol generation's modules (resolved from the freshly imported repo)."""

    def __init__(self, n):
        self.n = n
        p = f"pyairtouch.at{n}"
        self.pkg = p
        self.registry_mod = importlib.import_module(p + ".comms.registry")
        self.reg = self.registry_mod.INSTANCE
        self.hdr = importlib.import_module(p + ".comms.hdr")
        self.Header = self.hdr.At4Header if n == 4 else self.hdr.At5Header
        self.ext = importlib.import_module(p + ".comms.x1F_ext")
        self.api = importlib.import_module(p + ".api")
        self.port = 9004 if n == 4 else 9005

    def m(self, name):
        return importlib.import_module(f"{self.pkg}.comms.{name}")

    def reset_packet_counter(self, value=0):
        """A fresh header factory state (the registry is a process-wide singleton)."""
        self.reg.header_factory = type(self.reg.header_factory)()
        if value:
            # walk the counter forward through the public method only
            for _ in range(value):
                self.reg.header_factory.create_from_message(_Dummy(), 0)


class _Dummy:
    message_id = 0


def socket_mod():
    return importlib.import_module("pyairtouch.comms.socket")


def comms_mod():
    return importlib.import_module("pyairtouch.comms")


class Rig:
    """A real AirTouchSocket on a virtual loop with a simulated network."""

    def __init__(self, ctx, gen, stub_reader=None):
        self.ctx = ctx
        self.gen = gen
        self.loop = make_loop(ctx)
        self.net = FakeNet(self.loop, stub_reader=(ctx.symbolic if stub_reader is None else stub_reader))
        self.net.install()
        S = socket_mod()
        gen.reset_packet_counter()
        self.sock = S.AirTouchSocket(self.loop, "console.test", gen.port, gen.reg)
        self.received = []      # (time, header, message)
        self.conn_events = []   # (time, connected)
        self.sub_raises = False

        async def on_msg(header, message):
            self.received.append((self.loop.time(), header, message))

        async def on_conn(*, connected):
            self.conn_events.append((self.loop.time(), connected))

        self.sock.subscribe_on_message_received(on_msg)
        self.sock.subscribe_on_connection_changed(on_conn)

    def close(self):
        self.net.uninstall()
        self.loop.vt_close()

    def __enter__(self):
        return self

    def __exit__(self, *a):
        self.close()

    def spawn(self, coro):
        return self.loop.create_task(coro)

    def task_failures(self):
        """Exceptions reported to the loop's exception handler (unhandled task errors)."""
        return list(self.loop.exceptions)


def bytes_eq(a, b):
    """(Sym)Bool: two byte sequences are equal (lengths concrete)."""
    a, b = list(a), list(b)
    if len(a) != len(b):
        return False
    return SymBytes(a) == SymBytes(b)


def all_of(*xs):
    return sym_and(*xs)


def any_of(*xs):
    return sym_or(*xs)


def frame_bytes(gen_n, to, frm, pid, mtype, data):
    return framing.frame(gen_n, to, frm, pid, mtype, data)


def is_sym(x):
    return isinstance(x, (SymInt, SymBool))


class ApiRig:
    """The public API (pyairtouch.connect + init) on a virtual loop against a scripted console."""

    def __init__(self, ctx, gen, inst, stub_reader=None):
        from .console import Console
        self.ctx = ctx
        self.gen = gen
        self.loop = make_loop(ctx)
        self.net = FakeNet(self.loop, stub_reader=(ctx.symbolic if stub_reader is None else stub_reader))
        self.net.install()
        gen.reset_packet_counter()
        self.console = Console(self, inst)
        self.at = None
        self.init_result = None
        self.init_returned_at = None
        self.init_exc = None
        self.initialised_at_return = None

    def start(self, at=0):
        import pyairtouch
        api = importlib.import_module("pyairtouch.api")
        model = api.AirTouchModel.AIRTOUCH_4 if self.gen.n == 4 else api.AirTouchModel.AIRTOUCH_5

        async def go():
            try:
                if self.at is None:
                    self.at = pyairtouch.connect(model, "console.test", self.gen.port)
                self.init_result = await self.at.init()
            except Exception as e:  # noqa: BLE001
                self.init_exc = e
            self.init_returned_at = self.loop.time()
            self.initialised_at_return = bool(self.at.initialised) if self.at is not None else None

        if at == 0:
            return self.loop.create_task(go())
        self.loop.vt_call_at(at, lambda: self.loop.create_task(go()))
        return None

    def spawn(self, coro):
        return self.loop.create_task(coro)

    def run(self, until):
        self.loop.vt_run(until)

    def task_failures(self):
        return list(self.loop.exceptions)

    def close(self):
        self.net.uninstall()
        self.loop.vt_close()

    def __enter__(self):
        return self

    def __exit__(self, *a):
        self.close()

    def ac(self, number):
        for a in self.at.air_conditioners:
            if a.ac_id == number:
                return a
        return None

    def zone(self, number):
        for a in self.at.air_conditioners:
            for z in a.zones:
                if z.zone_id == number:
                    return z
        return None
