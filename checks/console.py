"""Scripted console for both generations, built only from the reference framing/layouts
(ref.framing, ref.at4, ref.at5) — never from the repo's encoders.

It parses what the client writes (reference framing), classifies each request, logs it with its
virtual timestamp and answers from an `Installation` description. Record bytes may be symbolic.
"""
from __future__ import annotations

from ref import at4 as r4
from ref import at5 as r5
from ref import framing
from sx.values import SymBytes, SymInt

STEPS = ["version", "names", "ability", "ac_status", "timer_status", "zone_status"]


class Installation:
    """What the console describes. All byte values may be symbolic.

    acs:    list of dicts {number, name, start, count, mode_bits, fan_bits, limits (AT4: (min,max); AT5: (minc,maxc,minh,maxh)),
                           group_bits (AT4 only, None = old format)}
    zones:  dict number -> name (str)
    ac_status / zone_status: dict number -> record bytes (list); timers: dict ac -> (on_dis,on_h,on_m,off_dis,off_h,off_m)
    """

    def __init__(self, gen):
        self.gen = gen
        self.acs = []
        self.zones = {}
        self.ac_status = {}
        self.zone_status = {}
        self.timers = {}
        self.version = (False, "1.2.3")
        self.errors = {}
        self.ac_status_pad = 2          # AT5: 8+pad bytes per AC record
        self.zero_zone_echo = False     # AT5 console without zones echoes the request

    @staticmethod
    def simple(gen, n_acs=1, zones_per_ac=2, old_ability=False):
        inst = Installation(gen)
        z = 0
        for a in range(n_acs):
            nums = list(range(z, z + zones_per_ac))
            z += zones_per_ac
            inst.acs.append({"number": a, "name": f"AC{a}", "start": nums[0] if nums else 0, "count": len(nums),
                             "mode_bits": 0b11111, "fan_bits": 0b1111111 if gen == 4 else 0xFF,
                             "limits": (16, 30) if gen == 4 else (16, 30, 17, 31),
                             "group_bits": None if old_ability else sum(1 << n for n in nums)})
            for n in nums:
                inst.zones[n] = f"Zone{n}"
                if gen == 4:
                    inst.zone_status[n] = r4.build_group_status(n, 1, 1, 100, 0, 1, 22, 1, 730, 0)
                else:
                    inst.zone_status[n] = r5.build_zone_status(n, 1, 1, 100, 120, 1, 730, 0, 0)
            if gen == 4:
                inst.ac_status[a] = r4.build_ac_status(a, 1, 4, 2, 0, 0, 22, 740, 0)
            else:
                inst.ac_status[a] = r5.build_ac_status(a, 1, 4, 2, 120, 0, 0, 0, 0, 740, 0)
            inst.timers[a] = (1, 0, 0, 1, 0, 0)
        return inst


class Console:
    def __init__(self, rig, inst):
        self.rig = rig
        self.loop = rig.loop
        self.gen = inst.gen
        self.inst = inst
        self.requests = []            # (time, kind, frame dict)
        self.buf = {}                 # conn index -> pending bytes
        self.silent = set()           # request kinds not answered
        self.answer_delay = 0         # virtual seconds before answering
        self.extra = {}               # kind -> list of (when: "before"/"after", frame bytes) injected around the answer
        self.auto = True
        self.on_request = None
        rig.net.on_write = self._on_write

    # ---- receiving ---------------------------------------------------------------
    def _on_write(self, conn, data):
        b = self.buf.setdefault(conn.index, [])
        b.extend(list(data))
        hl = framing.header_len(self.gen)
        cs = framing.covered_start(self.gen)
        while len(b) >= hl:
            lh, ll = b[cs + 4], b[cs + 5]
            n = _conc((lh << 8) | ll)
            if len(b) < hl + n + 2:
                break
            raw, rest = b[:hl + n + 2], b[hl + n + 2:]
            self.buf[conn.index] = b = rest
            fr = dict(to=raw[cs], frm=raw[cs + 1], pid=raw[cs + 2], type=_conc(raw[cs + 3]), data=raw[hl:hl + n], raw=raw)
            kind = self.classify(fr)
            self.requests.append((self.loop.time(), kind, fr))
            if self.on_request:
                self.on_request(conn, kind, fr)
            if self.auto and kind not in self.silent:
                if _is_zero(self.answer_delay):
                    self.loop.call_soon(self._answer, conn, kind, fr)
                else:
                    self.loop.call_later(self.answer_delay, self._answer, conn, kind, fr)

    def classify(self, fr):
        t, d = fr["type"], fr["data"]
        if t == 0x1F and len(d) >= 2:
            sub = (_conc(d[0]) << 8) | _conc(d[1])
            names = {0xFF30: "version", 0xFF11: "ability", 0xFF10: "error", 0xFF12: "names", 0xFF13: "names", 0xFF20: "quick_timer", 0xFF49: "quick_timer"}
            k = names.get(sub, f"ext_{sub:04x}")
            if k in ("version", "ability", "names") and len(d) > 2:
                return k + "_one"
            return k
        if self.gen == 4:
            empty = len(d) == 0
            return {0x2A: "zone_ctrl", 0x2B: "zone_status" if empty else "zone_status_msg", 0x2C: "ac_ctrl",
                    0x2D: "ac_status" if empty else "ac_status_msg", 0x36: "timer_ctrl",
                    0x37: "timer_status" if empty else "timer_status_msg"}.get(t, f"type_{t:02x}")
        if t == 0xC0 and len(d) >= 8:
            sub = _conc(d[0])
            cnt = (_conc(d[6]) << 8) | _conc(d[7])
            return {0x20: "zone_ctrl", 0x21: "zone_status" if cnt == 0 else "zone_status_msg", 0x22: "ac_ctrl",
                    0x23: "ac_status" if cnt == 0 else "ac_status_msg", 0x32: "timer_ctrl",
                    0x33: "timer_status" if cnt == 0 else "timer_status_msg"}.get(sub, f"c0_{sub:02x}")
        return f"type_{t:02x}"

    # ---- answering ---------------------------------------------------------------
    def _answer(self, conn, kind, fr):
        if conn.client_closed or conn.peer_closed:
            return
        for when, raw in self.extra.get(kind, []):
            if when == "before":
                conn.send(_wire(raw))
        frames = self.answer_frames(kind, fr)
        for raw in frames:
            conn.send(_wire(raw))
        for when, raw in self.extra.get(kind, []):
            if when == "after":
                conn.send(_wire(raw))

    def frame(self, mtype, data, pid=0, frm=None):
        if frm is None:
            frm = 0x90 if mtype == 0x1F else 0x80
        return framing.frame(self.gen, 0xB0, frm, pid, mtype, data)

    def answer_frames(self, kind, fr):
        pid = fr["pid"]
        i = self.inst
        g = self.gen
        if kind == "version":
            b = (r4 if g == 4 else r5).build_version(*i.version)
            return [self.frame(0x1F, framing.ext(0xFF30, b), pid)]
        if kind == "names":
            if g == 4:
                payload = [x for n, nm in i.zones.items() for x in r4.build_group_name(n, nm)]
                return [self.frame(0x1F, framing.ext(0xFF12, payload), pid)]
            if not i.zones and i.zero_zone_echo:
                return [framing.frame(5, 0xB0, 0x90, pid, 0x1F, framing.ext(0xFF13, []))]
            payload = [x for n, nm in i.zones.items() for x in r5.build_zone_name(n, nm)]
            return [self.frame(0x1F, framing.ext(0xFF13, payload), pid)]
        if kind == "ability":
            return [self.frame(0x1F, framing.ext(0xFF11, self.ability_payload()), pid)]
        if kind == "ac_status":
            return [self.ac_status_frame(pid)]
        if kind == "timer_status":
            return [self.timer_status_frame(pid)]
        if kind == "zone_status":
            if g == 5 and not i.zones and i.zero_zone_echo:
                return [framing.frame(5, 0xB0, 0x80, pid, 0xC0, framing.c0(0x21, [], 0, 0, []))]
            return [self.zone_status_frame(pid)]
        if kind == "error":
            ac = fr["data"][2]
            txt = i.errors.get(_conc(ac))
            b = (r4 if g == 4 else r5).build_error(ac, txt)
            return [self.frame(0x1F, framing.ext(0xFF10, b), pid)]
        return []

    def ability_payload(self):
        out = []
        for a in self.inst.acs:
            if "raw" in a:
                out += list(a["raw"])
            elif self.gen == 4:
                out += r4.build_ability(a["number"], a["name"], a["start"], a["count"], a["mode_bits"], a["fan_bits"],
                                        a["limits"][0], a["limits"][1], a.get("group_bits"))
            else:
                out += r5.build_ability(a["number"], a["name"], a["start"], a["count"], a["mode_bits"], a["fan_bits"], *a["limits"])
        return out

    def ac_status_frame(self, pid=0, only=None):
        recs = [r for n, r in self.inst.ac_status.items() if only is None or n in only]
        if self.gen == 4:
            return self.frame(0x2D, [b for r in recs for b in r], pid)
        ln = len(recs[0]) if recs else 0
        return self.frame(0xC0, framing.c0(0x23, [], ln, len(recs), [b for r in recs for b in r]), pid)

    def zone_status_frame(self, pid=0, only=None):
        recs = [r for n, r in self.inst.zone_status.items() if only is None or n in only]
        if self.gen == 4:
            return self.frame(0x2B, [b for r in recs for b in r], pid)
        ln = len(recs[0]) if recs else 0
        return self.frame(0xC0, framing.c0(0x21, [], ln, len(recs), [b for r in recs for b in r]), pid)

    def timer_status_frame(self, pid=0):
        t = self.inst.timers
        if self.gen == 4:
            states = [t.get(n, (0, 0, 0, 0, 0, 0)) for n in range(4)]
            return self.frame(0x37, r4.build_timer_status(states), pid)
        recs = [r5.build_timer_status(n, *v) for n, v in t.items()]
        return self.frame(0xC0, framing.c0(0x33, [], 9 if recs else 0, len(recs), [b for r in recs for b in r]), pid)

    def version_frame(self, pid=0):
        b = (r4 if self.gen == 4 else r5).build_version(*self.inst.version)
        return self.frame(0x1F, framing.ext(0xFF30, b), pid)

    def error_frame(self, ac, text, pid=0):
        b = (r4 if self.gen == 4 else r5).build_error(ac, text)
        return self.frame(0x1F, framing.ext(0xFF10, b), pid)

    def push(self, raw, conn=None):
        """Unsolicited frame to the client on the live connection."""
        c = conn or self.rig.net.current()
        if c is not None and not c.peer_closed:
            c.send(_wire(raw))
            return True
        return False

    def kinds(self):
        return [k for _, k, _ in self.requests]


def _conc(x):
    if isinstance(x, SymInt):
        return x.__index__()
    return x


def _is_zero(x):
    return isinstance(x, (int, float)) and x == 0


_CALC = {}


def _wire(raw):
    """Bytes for the wire. Frames with symbolic content get their check bytes from the repo's own
    calculate() over the reference span (same value as the reference CRC by C06's verdict): the
    client's validate() then compares identical terms instead of posing a CRC-equivalence query
    per frame. Fully concrete frames keep the reference CRC."""
    raw = list(raw)
    if all(isinstance(x, int) for x in raw):
        return bytes(raw)
    gen = 5 if (len(raw) > 4 and not isinstance(raw[3], SymInt) and raw[3] == 0xAB) else 4
    import importlib
    calc = _CALC.get("c")
    if calc is None:
        calc = _CALC["c"] = importlib.import_module("pyairtouch.comms.crc16").Crc16Modbus()
    cs = framing.covered_start(gen)
    chk = calc.calculate(SymBytes(raw[cs:-2]))
    return SymBytes(raw[:-2] + list(chk))
