"""Which properties are claimed (and with what words) — source for MANIFEST.json."""

_NOTE = ("Bounded: holds for all values within the bounds recorded in the evidence file (coverage.bounds); "
         "trusted base = CPython executing the real functions on proxy objects, z3, the shims/stubs listed in "
         "coverage.stubs (differentially self-tested each run), and the spec-derived reference under /verif/ref. "
         "Besides the instances named above each check carries history, interleaving (loop-turn offsets inside one virtual instant) "
         "and boundary instances added in response to seeded changes and reported defects; the evidence file lists every instance "
         "explored (coverage.instance_parameters) and DESIGN.md sections 7 and 10 say where each came from.")
_TECH = "symbolic execution of the real Python code on z3-backed proxy values (BV64/Float64/Real), branch decisions and obligations decided by z3, counterexamples replayed concretely"

CLAIMS = {
    "C19": {
        "text": "Bounded relational symbolic model checking: in one path an AirTouch 4 stack and an AirTouch 5 stack (real connect()+init(), real sockets) face scripted consoles that describe the same symbolic installation and state, restricted to what both protocols express (integer set-points, common codes, no bypass, equal heat/cool limits); a solver-enumerated shared getter must return equal values (only the fields it depends on are symbolic), and a solver-enumerated shared request with symbolic arguments must be accepted or refused by both and, when accepted, carry the same protocol meaning on each wire format as read by that generation's reference reader.",
        "note": _NOTE, "technique": _TECH, "design_ref": "DESIGN.md section 6 C19",
    },
    "C18": {
        "text": "Bounded symbolic model checking of the real discover() (both search loops, the datagram protocol, both decoders, the factory) on a virtual-time loop with stubbed UDP: response datagrams built from the vendor format with free bytes per part (commas allowed in the AT5 name), duplicates, same-id twins, request echoes, wrong part counts, misplaced id, the other generation's format, invalid UTF-8, short free datagrams, arriving at solver-chosen instants; z3 shows at most three fixed requests at 0.5 s spacing to the right address/port (broadcast and unicast), stop after the first interval with an answer, return by 1.5 s, exactly one correct entry per valid response, nothing for anything else, and clients with the right model and TCP port.",
        "note": _NOTE, "technique": _TECH, "design_ref": "DESIGN.md section 6 C18",
    },
    "C14": {
        "text": "Bounded symbolic model checking of the refresh behaviour of both API generations: after the real handshake the console drops the link at a solver-chosen instant, its AC/zone state moves meanwhile (free record bytes), reconnects are refused a solver-chosen number of times (also: the loss shows up as a write error on a zero-retry or retried command); on the new connection the first two frames must be the AC-status and zone/group-status requests at the very instant of reconnection, a solver-chosen getter must equal the new report, and an unchanged refresh notifies nobody; AirTouch 4: with the instants of unsolicited group reports as z3 Reals, group-status requests must appear exactly at last report + 300 s and every 300 s of continued silence.",
        "note": _NOTE, "technique": _TECH, "design_ref": "DESIGN.md section 6 C14",
    },
    "C15": {
        "text": "Bounded symbolic model checking of shutdown() of both API generations with the real socket, heartbeat and AT4 poll, called at a solver-chosen instant in each phase (console refusing / connect in flight / handshake stalled at a chosen step / initialised with heartbeat armed / command held for a dead link / after a failed init): after it returns the simulated network is frozen and any attempt, open or write is a violation (a connect already in flight may complete but must be closed at once, unwritten), the virtual loop must go idle, sending must raise NotOpenError, every transport must be closed; a later init() must rebuild the same model, issue the six requests in order and run a heartbeat again.",
        "note": _NOTE, "technique": _TECH, "design_ref": "DESIGN.md section 6 C15",
    },
    "C12": {
        "text": "Bounded symbolic model checking of the notification paths of both API generations after the real handshake: recording subscribers on the AirTouch, an AC (general and AC-state-only), a zone and a second AC, in a solver-enumerated arrangement (once / twice / unsubscribed again; raising subscriber present or not); frame 1 repeats the last report bit for bit, frame 2 has free record bytes, frame 3 is a fixed different report. z3 shows: identical reports are silent, a changed exposed attribute notifies exactly the right subscribers with the right identifier exactly once, zone changes reach the owning AC's general subscribers but not its AC-state-only ones, unsubscribing stops calls, a raising subscriber starves nobody and later frames still notify.",
        "note": _NOTE, "technique": _TECH, "design_ref": "DESIGN.md section 6 C12",
    },
    "C10": {
        "text": "Bounded symbolic model checking of the API object model of both generations after the real handshake: status records with free bytes (restricted to protocol-defined values), timer, error and version frames arrive through the real receive path, in histories of 1-2 (quick) / 3 (thorough) frames with the last one free; a solver-enumerated index picks the entity and the public getter inspected, and z3 shows it equals the reference reading of the most recent frame about that entity (selected vs active mode/fan, limits by mode, spill/bypass, error details only with an error code and never stale, timers, version), that defined values are accepted without reset, and that unknown entity ids are ignored.",
        "note": _NOTE, "technique": _TECH, "design_ref": "DESIGN.md section 6 C10",
    },
    "C13": {
        "text": "Bounded symbolic model checking of the real _read loop over streams of 1-3 frames cut at up to three solver-chosen offsets: the reader stub compares 'delivered so far >= needed' symbolically, so each path is one class of cut positions relative to every read boundary (prefix, length field, payload, check bytes) and all split points are covered; on every path the delivered messages equal those of the unsegmented stream, once each, in order, without reset. Sampled path models are replayed on the real asyncio.StreamReader.",
        "note": _NOTE, "technique": _TECH, "design_ref": "DESIGN.md section 6 C13",
    },
    "C17": {
        "text": "Bounded symbolic model checking of the real receive path on unknown and malformed input: frames whose type byte / 0x1F sub-id / 0xC0 sub-type is symbolic and unregistered with symbolic payload must be delivered as unsupported messages carrying id and payload unchanged, leave the connection undisturbed and be followed by the next frame; free byte streams (header length + up to 4/8 free bytes, then EOF or silence) must never kill the receive task, anything delivered must carry the header the reference framing reads from those bytes with a valid check value, and the client must recover (probe delivered after reconnect); oversized AT5 strides are decoded from the known prefix.",
        "note": _NOTE, "technique": _TECH, "design_ref": "DESIGN.md section 6 C17",
    },
    "C08": {
        "text": "Bounded symbolic model checking of the real HeartbeatManager (symbolic interval/timeout configuration) and of the real API objects after the real handshake (library constants 300/330 s) on a virtual-time loop: per heartbeat the console answers after a solver-chosen delay or never, silence starting at a solver-enumerated heartbeat; on every ordering class of the instants the version requests must appear at start+k*interval and the connection must be reset at exactly the instants given by 'deadline = (start | last response | previous reset) + timeout', and never when all answers come within timeout-interval; the API's response matcher is exercised with non-matching answers.",
        "note": _NOTE, "technique": _TECH, "design_ref": "DESIGN.md section 6 C08",
    },
    "C04": {
        "text": "Bounded symbolic model checking of every public control call of both generations on API objects built by the real handshake: enum arguments enumerated by the solver, temperatures on the 0.05 degC grid as IEEE doubles (j/20 for symbolic j in [-200,1200]), damper, durations, clock times, AC/zone numbers, limits and current mode symbolic; the single frame written is read with the reference command reader (vendor documents): addressing 0x80/0x90 from 0xB0, type, sub-header, check bytes over the right span, intended AC/zone, requested attribute = requested value (set-point within half a resolution step after clamping, in exact integers), every other attribute keep, padding zero.",
        "note": _NOTE, "technique": _TECH, "design_ref": "DESIGN.md section 6 C04",
    },
    "C11": {
        "text": "Bounded symbolic model checking of the refusal/shape side of every public control call: the ability bitmap relevant to the call fully symbolic (all 32 mode / 128-256 fan bitmaps), turbo support, sensor presence, damper -5..105, temperature grid, limits, current mode and last reported timers symbolic; z3 shows ValueError is raised exactly for unsupported requests and nothing is written then, every accepted call writes exactly one frame, AC set-points are rounded to the resolution and clamped into the current [min,max], and the other quick timer is re-sent exactly as last reported.",
        "note": _NOTE, "technique": _TECH, "design_ref": "DESIGN.md section 6 C11",
    },
    "C03": {
        "text": "Bounded symbolic model checking of the real send path into the real receive path for all 36 message/request classes: every field symbolic within its documented domain (ints, flags, lazy enum members, floats on the raw grid as IEEE doubles, UTF-8 strings as validated free bytes, whole-minute durations, packet id), repeat counts 0..2 (quick) with all records free; z3 shows on every path that the delivered header and message equal what was sent, nothing is left over, and header length = size() = bytes produced, 0xC0 sub-header lengths, AT5 outer length (both copies), prefix and checksum span agree.",
        "note": _NOTE + " The checksum *value* is compared with the repo's calculate() over the reference span; that calculate() is CRC-16/MODBUS is C06.", "technique": _TECH, "design_ref": "DESIGN.md section 6 C03",
    },
    "C05": {
        "text": "Bounded symbolic model checking of every real status/ability/names/version/error/timer decoder of both generations, called through the registry and the 0x1F / 0xC0 wrappers with every record byte symbolic (record counts, AT5 strides above the known layout, AT4 ability with/without group bitmap, mixed): every decoded field is shown by z3 to equal the reference reading of the same bits (code tables and formulas from the vendor documents; temperatures as IEEE doubles equal to the correctly rounded quotient), sentinels decode to absent values, undefined codes never decode to a defined value. Three recorded findings (non-optional temperature/set-point fields) are carved out by input region.",
        "note": _NOTE, "technique": _TECH, "design_ref": "DESIGN.md section 6 C05",
    },
    "C09": {
        "text": "Bounded symbolic model checking of the real connect()+init() of both generations on a virtual-time loop against a scripted reference console: the silent step (or none), the slot/kind/position of an interleaved extra frame, the connect delay around the 5 s limit, the console's answer delay and (AT4) the group bitmaps are solver-chosen; on every path the six requests must appear in order and one at a time, init must return True with exactly the described ACs/zones/partition, or False at exactly 5 s with initialised false, without exception.",
        "note": _NOTE, "technique": _TECH, "design_ref": "DESIGN.md section 6 C09",
    },
    "C07": {
        "text": "Bounded symbolic model checking of the whole real socket on a virtual-time loop against fault scripts: each step is a solver-enumerated choice from {refuse, accept with symbolic latency} x {peer EOF, reset, garbage, bad CRC, truncated frame, undecodable frame, write error, unencodable message queued, raising subscriber, nop}, two steps may land in one loop turn, the user's send instant is a z3 Real; after every script (full alphabet depth <=3 quick / 4 thorough, write-fault and receive-side alphabets deeper) the client must be connected, deliver a probe frame, transmit a probe command, never have held two transports, have closed every abandoned one, and no socket task may have died.",
        "note": _NOTE, "technique": _TECH, "design_ref": "DESIGN.md section 6 C07",
    },
    "C02": {
        "text": "Bounded symbolic model checking of the real socket's retry logic on a virtual-time loop: write faults on a solver-chosen subset of the first 4-5 writes, peer resets, refusals and reconnect latencies and lifetimes as z3 Reals (the solver places reconnects exactly at expiry); every frame instance at the console is counted and time-stamped: at most 1+retries instances, none at or after expiry, no re-send after a successful write, a failed idempotent message is first on the next connection.",
        "note": _NOTE + " The API-level policy choice per public command is checked behaviourally in the same harness family (fault on the command's first write).", "technique": _TECH, "design_ref": "DESIGN.md section 6 C02",
    },
    "C01": {
        "text": "Bounded symbolic model checking of the real socket send path on a virtual-time loop: 2-3 (quick) / up to 4 (thorough) sends at solver-chosen instants with solver-chosen lifetimes against a console that starts accepting at a solver-chosen instant (and optional back-pressure); every ordering class of the instants is one path; on each the bytes at the console must equal, frame for frame and in acceptance order, the reference framing of exactly the submitted messages that were within lifetime; write triples contiguous; all 36 message classes rotate through the sends; packet counter by one inductive step over a symbolic counter value plus a concrete 260-send run.",
        "note": _NOTE, "technique": _TECH, "design_ref": "DESIGN.md section 6 C01",
    },
    "C16": {
        "text": "Bounded symbolic model checking of one inductive step of the pending-message buffer through the public send API: from q = 0..10 held messages with free (solver-chosen) expiries and a free clock, one more send with a free policy; expired-first purge, capacity check against the module's constant, overflow error leaving held entries untouched, and the exact frames written after the link comes up are compared with reference semantics on every ordering class of the instants (z3 Real).",
        "note": _NOTE, "technique": _TECH, "design_ref": "DESIGN.md section 6 C16",
    },
    "C06": {
        "text": "Bounded symbolic model checking of the real CRC and receive path: calculate/validate equal the bitwise CRC-16/MODBUS reference for every buffer up to the stated length (z3 equivalence query per length, plus injectivity of the 2-byte register map so that every (register, byte) step is exercised); the real _read loop on a damaged frame delivers only what the reference receiver accepts and otherwise resets and recovers; which error classes CRC-16 detects is proved on the reference by z3 lemmas.",
        "note": _NOTE, "technique": _TECH, "design_ref": "DESIGN.md section 6 C06",
    },
}

NOT_APPLICABLE = {}   # every property is claimed by a solver-based check (bounded; see each evidence file)
