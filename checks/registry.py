"""Which properties are claimed (and with what words) — source for MANIFEST.json."""
CLAIMS = {}
_PENDING = "check not built yet in this round (engine under construction); see DESIGN.md section 10 build order"
NOT_APPLICABLE = {f"C{n:02d}": _PENDING for n in range(1, 20)}
