"""Check driver: ./check <Cnn> --tier quick|thorough   |   ./check --replay <file>

Exit codes: 0 held within bounds (frontier empty, every obligation unsat)
            1 VIOLATION (counterexample replayed on the unmodified code)
            2 inconclusive (budget, unknown, unsupported, unreached obligation)
            3 harness error (counterexample did not replay, shim self-test failed, crash)
"""
from __future__ import annotations

import argparse
import hashlib
import importlib
import json
import logging
import os
import subprocess
import sys
import time
import traceback
from fractions import Fraction

HERE = os.path.dirname(os.path.dirname(os.path.abspath(__file__)))
REPO = os.environ.get("VERIF_REPO", "/repo")


def _setup_paths():
    for p in (HERE, REPO):
        if p in sys.path:
            sys.path.remove(p)
    sys.path.insert(0, REPO)
    sys.path.insert(0, HERE)


def _import_repo():
    """Fresh import of the repo's modules from the working tree."""
    import pyairtouch  # noqa: F401
    import pyairtouch.factory  # noqa: F401  (pulls in both API stacks, registries, discovery)
    import pyairtouch.comms.udp  # noqa: F401
    src = os.path.dirname(os.path.abspath(pyairtouch.__file__))
    if not src.startswith(os.path.abspath(REPO)):
        raise RuntimeError(f"pyairtouch imported from {src}, expected under {REPO}")
    from sx import procstate
    procstate.snapshot()
    return src


def _jsonable(v):
    if isinstance(v, Fraction):
        return {"q": [v.numerator, v.denominator]} if v.denominator != 1 else v.numerator
    if isinstance(v, bytes):
        return {"hex": v.hex()}
    if isinstance(v, dict):
        return {str(k): _jsonable(x) for k, x in v.items()}
    if isinstance(v, (list, tuple)):
        return [_jsonable(x) for x in v]
    if isinstance(v, (int, float, str, bool)) or v is None:
        return v
    return repr(v)


def _unjson(v):
    if isinstance(v, dict):
        if set(v) == {"q"}:
            return Fraction(v["q"][0], v["q"][1])
        if set(v) == {"hex"}:
            return bytes.fromhex(v["hex"])
        return {k: _unjson(x) for k, x in v.items()}
    if isinstance(v, list):
        return [_unjson(x) for x in v]
    return v


def load_known(pid):
    path = os.path.join(HERE, "known_findings.json")
    if not os.path.exists(path):
        return {}, {}
    data = json.load(open(path))
    open_ = {f["id"]: f for f in data.get("findings", []) if f.get("property") == pid and f.get("status") == "open"}
    fixed = {f["id"]: f for f in data.get("findings", []) if f.get("property") == pid and f.get("status") == "fixed"}
    return open_, fixed


def source_digests(src_root):
    out = {}
    for d, _, fs in os.walk(src_root):
        for f in fs:
            if f.endswith(".py"):
                p = os.path.join(d, f)
                out[os.path.relpath(p, REPO)] = hashlib.sha256(open(p, "rb").read()).hexdigest()[:16]
    return out


class CodeCoverage:
    """Records which code objects under /repo execute while proxies are live (sys.monitoring)."""

    def __init__(self, root):
        self.root = os.path.abspath(root)
        self.seen = set()
        self.tool = None

    def start(self):
        try:
            mon = sys.monitoring
            self.tool = mon.COVERAGE_ID
            mon.use_tool_id(self.tool, "sx-functions")

            def on_start(code, offset):
                fn = code.co_filename
                if fn.startswith(self.root):
                    self.seen.add((os.path.relpath(fn, REPO), code.co_qualname))
                return mon.DISABLE

            mon.register_callback(self.tool, mon.events.PY_START, on_start)
            mon.set_events(self.tool, mon.events.PY_START)
        except Exception:
            self.tool = None

    def stop(self):
        if self.tool is not None:
            try:
                sys.monitoring.set_events(self.tool, 0)
                sys.monitoring.free_tool_id(self.tool)
            except Exception:
                pass

    def names(self):
        return sorted(f"{f}:{q}" for f, q in self.seen)


def replay_one(harness, params, assignment, known_open):
    """Concrete run (no shims, no proxies, stock loop). Returns dict."""
    from sx import core, procstate
    procstate.restore()
    ctx = core.ReplayCtx(assignment, known_open)
    status = "ok"
    detail = None
    core.ACTIVE = ctx
    try:
        harness.run(ctx, params)
        core.raise_pending()
    except core.ViolationFound:
        status = "violation"
    except core.PathAbort as e:
        status = "abort"
        detail = str(e)
    except BaseException as e:  # noqa: BLE001
        status = "crash"
        detail = "".join(traceback.format_exception(type(e), e, e.__traceback__))[-2000:]
    finally:
        core.ACTIVE = None
    return dict(status=status, detail=detail,
                violations=[(l, d) for l, _, d in ctx.violations],
                known_hits=[(f, l, d) for f, l, _, d in ctx.known_hits],
                observations=ctx.observations, reached=ctx.reached)


def _obs_equal(a, b):
    """Compare observation traces (floats compared exactly; both come from dyadic models)."""
    return _jsonable(_norm_obs(a)) == _jsonable(_norm_obs(b))


def _norm_obs(o):
    out = []
    for t, v in o:
        out.append((t, _norm_val(v)))
    return out


def _norm_val(v):
    import enum
    if isinstance(v, enum.Enum):
        return f"{type(v).__name__}.{v.name}"
    if isinstance(v, (bytes, bytearray)):
        return bytes(v).hex()
    if isinstance(v, float) and v == int(v):
        return int(v)
    if isinstance(v, Fraction):
        return float(v) if v.denominator != 1 else int(v)
    if isinstance(v, (list, tuple)):
        return [_norm_val(x) for x in v]
    if isinstance(v, dict):
        return {str(_norm_val(k)): _norm_val(x) for k, x in v.items()}
    if isinstance(v, (int, str, bool)) or v is None:
        return v
    return repr(v)


def cmd_replay(path):
    _setup_paths()
    logging.disable(logging.CRITICAL)
    _import_repo()
    rec = _unjson(json.load(open(path)))
    pid = rec["property"]
    harness = importlib.import_module(f"checks.{pid.lower()}")
    open_, _ = load_known(pid)
    r = replay_one(harness, rec["params"], rec["assignment"], set(open_))
    print(json.dumps({"status": r["status"], "violations": _jsonable(r["violations"]),
                      "known_hits": _jsonable(r["known_hits"]), "detail": r["detail"]}))
    if r["status"] == "violation" and r["violations"]:
        print(f"VIOLATION property={pid} replay={path}")
        return 1
    if r["status"] == "crash":
        return 3
    return 0


def _write_replay(pid, tier, params, assignment, label, detail, kind):
    d = os.path.join(HERE, "replay", pid)
    os.makedirs(d, exist_ok=True)
    rec = {"property": pid, "tier": tier, "params": params, "assignment": assignment, "label": label,
           "detail": detail, "kind": kind}
    body = json.dumps(_jsonable(rec), sort_keys=True, indent=1)
    name = hashlib.sha256(body.encode()).hexdigest()[:12] + ".json"
    path = os.path.join(d, name)
    with open(path, "w") as f:
        f.write(body)
    return path


def _replay_subprocess(path):
    """Replay in a fresh interpreter (no shims ever installed there)."""
    p = subprocess.run([sys.executable, "-m", "checks.run", "--replay", path], cwd=HERE, capture_output=True,
                       text=True, timeout=600, env=dict(os.environ, PYTHONHASHSEED="0"))
    line = p.stdout.strip().splitlines()[0] if p.stdout.strip() else "{}"
    try:
        info = json.loads(line)
    except Exception:
        info = {"status": "crash", "detail": p.stdout[-500:] + p.stderr[-1500:]}
    return p.returncode, info


def cmd_check(pid, tier, seed, jobs):
    t_start = time.time()
    if tier == "thorough":
        os.environ.setdefault("VERIF_XCHECK", "1")      # FP shape lemmas are re-discharged with cvc5 (second opinion)
        os.environ.setdefault("VERIF_XCHECK_OBL", "24")  # and, per worker process, a sample of the unsat verdicts (sx/core.py)
    _setup_paths()
    logging.disable(logging.CRITICAL)
    src_root = _import_repo()
    from sx import core, explore, fplemma, selftest, shims
    harness = importlib.import_module(f"checks.{pid.lower()}")
    open_, fixed = load_known(pid)
    known_open = set(open_)
    problems = []
    exit_code = 0

    # 1. self-test of shims and proxies (differential)
    st = selftest.run_all(seed=seed, repo_root=REPO)
    if not st["ok"]:
        problems.append(f"shim self-test failed: {st}")
        exit_code = 3

    # 2. direct lemmas (closed-form queries), if the harness has any
    lemma_results = []
    if hasattr(harness, "lemmas") and exit_code == 0:
        shims.install()
        try:
            lemma_results = harness.lemmas(tier, jobs)
        finally:
            shims.uninstall()

    # 3. symbolic exploration of the real code
    instances = harness.instances(tier)
    cov = CodeCoverage(src_root)
    results = []
    if exit_code == 0:
        shims.install()
        cov.start()
        try:
            # one cheap in-process path per distinct harness kind, to collect the executed repo functions
            seen_kinds = set()
            for p in instances:
                k = p.get("kind", "default")
                if k in seen_kinds:
                    continue
                seen_kinds.add(k)
                try:
                    core.run_path(harness.run, p, [], None, core.Stats(), known_open)
                except BaseException:  # noqa: BLE001
                    pass
            cov.stop()
            budget = getattr(harness, "WALL_BUDGET", {}).get(tier, 900 if tier == "quick" else 7200)
            results = explore.run_instances(harness.run, instances, jobs=jobs, known_open=known_open, seed=seed,
                                            sample_rate=getattr(harness, "SAMPLE_RATE", {}).get(tier, 0.02),
                                            chunk=getattr(harness, "CHUNK", 48), wall_budget=budget)
        finally:
            cov.stop()
            shims.uninstall()

    # 4. aggregate
    total = core.Stats()
    reached = {}
    status_counts = {}
    violations = []   # (params, label, assignment, detail)
    known_hits = {}
    samples = []
    fp_all = {"proved": fplemma.STATS["proved"], "failed": fplemma.STATS["failed"], "shapes": list(fplemma.STATS["shapes"]),
              "xcheck": list(fplemma.STATS.get("xcheck", [])), "disagreements": list(fplemma.STATS.get("disagreements", []))}
    for r in results:
        for k in ("proved", "failed"):
            fp_all[k] += r.fp[k]
        fp_all["shapes"].extend(r.fp["shapes"])
        fp_all["xcheck"].extend(r.fp["xcheck"])
        fp_all["disagreements"].extend(r.fp["disagreements"])
    for r in results:
        total.add(r.stats)
        for k, v in r.reached.items():
            reached[k] = reached.get(k, 0) + v
        for k, v in r.status_counts.items():
            status_counts[k] = status_counts.get(k, 0) + v
        for (label, assignment, detail) in r.violations:
            violations.append((r.params, label, assignment, detail))
        for (fid, label, assignment, detail) in r.known_hits:
            known_hits.setdefault(fid, (r.params, label, assignment, detail))
        for s in r.samples:
            samples.append((r.params, s))
        if not r.exhausted:
            problems.append(f"instance {r.params} not exhausted within budget")
        if r.stats.paths > 0 and not (r.status_counts.get("ok", 0) + r.status_counts.get("violation", 0)):
            problems.append(f"instance {r.params} is vacuous: no path ran to completion ({r.status_counts})")
        for st_, d in r.problems:
            problems.append(f"{st_}: {str(d)[-1500:]}")
    for lr in lemma_results:
        if lr["result"] == "sat":
            violations.append((lr.get("params", {"lemma": lr["name"]}), "lemma:" + lr["name"], lr.get("assignment", {}), lr.get("detail")))
        elif lr["result"] != "unsat":
            problems.append(f"lemma {lr['name']}: {lr['result']}")
    expect = harness.expect_labels(tier) if hasattr(harness, "expect_labels") else []
    for lab in expect:
        if reached.get(lab, 0) == 0 and exit_code == 0:
            problems.append(f"obligation label '{lab}' was reached by no path (vacuous)")
    bad_status = {k: v for k, v in status_counts.items() if k in ("inconclusive", "unsupported", "crash")}
    if (problems or bad_status) and exit_code == 0:
        exit_code = 3 if "crash" in bad_status else 2

    # 5. replay counterexamples and known-finding witnesses on the unmodified code
    out_lines = []
    confirmed = 0
    unconfirmed = 0
    seen_labels = {}
    seen_inst = set()
    # distinct (label, instance) pairs first; at most 2 per pair-label and 8 in total are replayed
    violations.sort(key=lambda v: 0)
    ordered = []
    rest = []
    for v in violations:
        key = (v[1], json.dumps(_jsonable(v[0]), sort_keys=True))
        (rest if key in seen_inst else ordered).append(v)
        seen_inst.add(key)
    for params, label, assignment, detail in ordered + rest:
        if seen_labels.get(label, 0) >= 4 or sum(seen_labels.values()) >= 8:
            continue
        seen_labels[label] = seen_labels.get(label, 0) + 1
        path = _write_replay(pid, tier, params, assignment, label, detail, "violation")
        if label.startswith("lemma:") and not hasattr(harness, "replay_lemma"):
            rc, info = 1, {"status": "violation"}
        else:
            rc, info = _replay_subprocess(path)
        if rc == 1 and info.get("status") == "violation":
            confirmed += 1
            out_lines.append(f"VIOLATION property={pid} replay={path}")
            out_lines.append(f"  label={label} params={json.dumps(_jsonable(params))} detail={_jsonable(detail)}")
        else:
            unconfirmed += 1
            problems.append(f"counterexample for '{label}' did not replay on the unmodified code: {info} ({path})")
    kf_reproduced = []
    for fid, (params, label, assignment, detail) in sorted(known_hits.items()):
        path = _write_replay(pid, tier, params, assignment, label, detail, "known-finding")
        rc, info = _replay_subprocess(path)
        hit = any(h[0] == fid for h in info.get("known_hits", []))
        if hit:
            kf_reproduced.append(fid)
            out_lines.append(f"KNOWN-FINDING: property={pid} {fid} {open_[fid].get('what', '')} [witness {path}]")
        else:
            problems.append(f"known finding {fid}: solver witness did not replay: {info}")
            unconfirmed += 1
    for fid in sorted(known_open - set(known_hits)):
        out_lines.append(f"NOTE: listed finding {fid} was not reproduced in this tier (no KNOWN-FINDING line)")

    if confirmed:
        exit_code = 1
    elif unconfirmed:
        exit_code = 3
    elif violations and not confirmed:
        exit_code = 3

    # 6. trace validation: sampled path models re-executed concretely on the stock loop
    traces_ok = traces_bad = 0
    trace_notes = []
    for params, (assignment, observations, notes) in samples[:40]:
        r = replay_one(harness, params, assignment, known_open)
        if r["status"] == "ok" and _obs_equal(r["observations"], observations):
            traces_ok += 1
        else:
            traces_bad += 1
            if len(trace_notes) < 3:
                trace_notes.append({"params": _jsonable(params), "assignment": _jsonable(assignment),
                                    "symbolic": _jsonable(_norm_obs(observations)),
                                    "concrete": _jsonable(_norm_obs(r["observations"])), "status": r["status"],
                                    "detail": r["detail"]})
    if traces_bad and exit_code == 0:
        problems.append(f"{traces_bad} sampled path(s) gave a different observable trace on the stock loop: {json.dumps(trace_notes)[:1500]}")
        exit_code = 3

    if fp_all["disagreements"] and exit_code == 0:
        problems.append(f"cvc5 disagrees with z3 on an FP shape lemma: {fp_all['disagreements'][:2]}")
        exit_code = 2

    # 7. evidence
    wall = time.time() - t_start
    exhaustive = exit_code in (0, 1) and all(r.exhausted for r in results) and not bad_status
    sample_cases = []
    for params, (assignment, observations, notes) in samples[:5]:
        sample_cases.append({"params": _jsonable(params), "inputs": _jsonable(assignment),
                             "trace": _jsonable(_norm_obs(observations))[:30], "notes": _jsonable(notes)})
    if not sample_cases:
        for r in results[:5]:
            sample_cases.append({"params": _jsonable(r.params), "paths": r.stats.paths, "reached": r.reached})
    for lr in lemma_results[:5]:
        sample_cases.append({"lemma": lr["name"], "result": lr["result"], "seconds": lr.get("seconds")})
    import z3
    ev = {
        "property_id": pid,
        "tier": tier,
        "seed": seed,
        "level": "model_checking",
        "coverage": {
            "states": max(total.paths, 0) + len(lemma_results),
            "transitions": total.decisions + sum(1 for _ in lemma_results),
            "traces_validated_against_impl": traces_ok,
            "samples": sample_cases or [{"note": "no path completed"}],
            "exhaustive": bool(exhaustive),
            "obligations": total.obligations + len(lemma_results),
            "discharged": total.discharged + sum(1 for lr in lemma_results if lr["result"] == "unsat"),
            "paths_by_status": status_counts,
            "instances": len(instances),
            "instance_parameters": [json.dumps(i, sort_keys=True) for i in instances][:400],
            "vacuity_paths_reaching_each_obligation": reached,
            "functions_encoded": cov.names(),
            "source_digests": source_digests(src_root),
            "bounds": harness.bounds(tier) if hasattr(harness, "bounds") else {},
            "outside_bounds": getattr(harness, "OUTSIDE", []),
            "stubs": getattr(harness, "STUBS", []),
            "solver": {"name": "z3", "version": z3.get_version_string(), "queries": total.solver_calls,
                       "seconds": round(total.solver_s, 2), "unknown": total.unknown,
                       "fp_obligation_queries": total.fp_queries,
                       "fp_shape_lemmas": {"proved": fp_all["proved"], "failed": fp_all["failed"], "shapes": fp_all["shapes"][:12]}},
            "cross_solver": {"solver": "cvc5 (python wheel)",
                             "scope": "thorough tier only: every FP shape lemma, and a sample (per worker process: one in "
                                      "VERIF_XCHECK_STRIDE, at most VERIF_XCHECK_OBL) of the z3 'unsat' verdicts that discharge an "
                                      "obligation or prune a branch, re-discharged from the SMT-LIB2 text of the same query; "
                                      "a cvc5 'sat' makes the run inconclusive (exit 2), a cvc5 timeout is counted as unknown",
                             "results": fp_all["xcheck"][:40], "disagreements": fp_all["disagreements"][:5],
                             "obligation_and_branch_queries": {"rechecked": total.xc_queries, "agree_unsat": total.xc_agree,
                                                               "cvc5_unknown_or_timeout": total.xc_unknown,
                                                               "disagree": total.xc_disagree, "seconds": round(total.xc_s, 2),
                                                               "timeout_s_each": core.XC_TIMEOUT_S, "stride": core.XC_STRIDE}},
            "lemmas": [{k: _jsonable(v) for k, v in lr.items() if k != "assignment"} for lr in lemma_results],
            "selftest": {k: list(v) if isinstance(v, tuple) else v for k, v in st.items()},
            "known_findings_open": sorted(known_open),
            "known_findings_reproduced": kf_reproduced,
            "known_findings_fixed": sorted(fixed),
            "problems": problems[:20],
            "explanation": "bounded symbolic model checking of the real code: every path of the harness within the stated bounds was executed on proxy values; every branch was decided by z3; every obligation was shown unsat-to-violate by z3",
        },
        "assumptions": getattr(harness, "ASSUMPTIONS", []) + [
            "CPython executes the unmodified /repo functions on proxy objects; shims are validated differentially at the start of this run (see coverage.selftest)",
            "z3 is trusted for sat/unsat verdicts; unknown is never counted as held",
        ],
        "wall_s": round(wall, 2),
        "violations": confirmed,
        "exit_code": exit_code,
    }
    evdir = os.environ.get("VERIF_EVIDENCE_DIR") or os.path.join(HERE, "evidence")   # scratch runs (seeded changes) write elsewhere
    os.makedirs(evdir, exist_ok=True)
    with open(os.path.join(evdir, f"{pid}.json"), "w") as f:
        json.dump(ev, f, indent=1, default=repr)

    for ln in out_lines:
        print(ln)
    for p in problems[:12]:
        print("PROBLEM:", p)
    verdict = {0: "HELD within bounds", 1: "VIOLATION", 2: "INCONCLUSIVE", 3: "HARNESS-ERROR"}[exit_code]
    print(f"{pid} [{tier}] {verdict}: instances={len(instances)} paths={total.paths} decisions={total.decisions} "
          f"obligations={total.obligations}/{total.discharged} discharged, lemmas={len(lemma_results)}, "
          f"solver={total.solver_calls} calls {total.solver_s:.1f}s, traces_validated={traces_ok}, wall={wall:.1f}s")
    return exit_code


def main(argv=None):
    import warnings
    warnings.filterwarnings("ignore", category=RuntimeWarning)     # abandoned paths leave never-awaited coroutines behind
    ap = argparse.ArgumentParser()
    ap.add_argument("pid", nargs="?")
    ap.add_argument("--tier", default=os.environ.get("VERIF_TIER", "quick"), choices=["quick", "thorough"])
    ap.add_argument("--replay")
    ap.add_argument("--jobs", type=int, default=int(os.environ.get("VERIF_JOBS", "0")) or None)
    a = ap.parse_args(argv)
    seed = int(os.environ.get("VERIF_SEED", "0") or 0)
    if a.replay:
        return cmd_replay(a.replay)
    if not a.pid:
        ap.error("property id required")
    return cmd_check(a.pid.upper(), a.tier, seed, a.jobs)


if __name__ == "__main__":
    sys.exit(main())
