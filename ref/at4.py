"""Reference reading of AirTouch 4 payloads, written from the vendor document
(AirTouch 4 Communication Protocol v1.6; text in /verif/spec). All functions work on
ints and on symbolic ints (only & | >> << + - and comparisons are used).

Enumerated fields are returned as raw codes; the tables below give the meaning the document
assigns to each defined code. Codes not in a table are "other / not available".
Messages the vendor does not document (0x36, 0x37, 0xFF20) follow the layout in the repo's
module docstrings and are marked UNDOCUMENTED.
"""

# ---- message types and sub ids
T_GROUP_CTRL, T_GROUP_STATUS, T_AC_CTRL, T_AC_STATUS, T_EXT = 0x2A, 0x2B, 0x2C, 0x2D, 0x1F
T_TIMER_CTRL, T_TIMER_STATUS = 0x36, 0x37            # UNDOCUMENTED by the vendor
X_ERROR, X_ABILITY, X_NAMES, X_QUICK_TIMER, X_VERSION = 0xFF10, 0xFF11, 0xFF12, 0xFF20, 0xFF30

# ---- status code tables (document section 4.b, 4.d)
GROUP_POWER_STATE = {0: "OFF", 1: "ON", 3: "TURBO"}
GROUP_CONTROL_METHOD = {0: "DAMPER", 1: "TEMPERATURE"}          # 1: temperature control, 0: percentage control
BATTERY = {0: "NORMAL", 1: "LOW"}
AC_POWER_STATE = {0: "OFF", 1: "ON"}                            # 10/11: not available
AC_MODE = {0: "AUTO", 1: "HEAT", 2: "DRY", 3: "FAN", 4: "COOL", 8: "AUTO_HEAT", 9: "AUTO_COOL"}
AC_FAN = {0: "AUTO", 1: "QUIET", 2: "LOW", 3: "MEDIUM", 4: "HIGH", 5: "POWERFUL", 6: "TURBO"}

# ---- control code tables (document section 4.a, 4.c); anything else means "keep"
CTRL_GROUP_POWER = {1: "TOGGLE", 2: "TURN_OFF", 3: "TURN_ON", 5: "TURBO"}
CTRL_GROUP_METHOD = {1: "CHANGE", 2: "DAMPER", 3: "TEMPERATURE"}
CTRL_GROUP_SETTING = {2: "DECREASE", 3: "INCREASE", 4: "SET_PERCENTAGE", 5: "SET_SETPOINT"}
CTRL_AC_POWER = {1: "TOGGLE", 2: "TURN_OFF", 3: "TURN_ON"}
CTRL_AC_MODE = {0: "AUTO", 1: "HEAT", 2: "DRY", 3: "FAN", 4: "COOL"}
CTRL_AC_FAN = {0: "AUTO", 1: "QUIET", 2: "LOW", 3: "MEDIUM", 4: "HIGH", 5: "POWERFUL", 6: "TURBO"}
CTRL_AC_SP = {1: "SET_VALUE", 2: "DECREASE", 3: "INCREASE"}


def temp_raw(b5, b6):
    """11-bit temperature VALUE: byte5 and the top three bits of byte6."""
    return (b5 << 3) | (b6 >> 5)


def group_status_record(r):
    """r: 6 bytes. Document 4.b."""
    b1, b2, b3, b4, b5, b6 = r
    return {
        "group_number": b1 & 0x3F,
        "power_code": b1 >> 6,
        "method_code": b2 >> 7,
        "damper_percentage": b2 & 0x7F,
        "battery_code": b3 >> 7,
        "supports_turbo": (b3 >> 6) & 1,
        "set_point": b3 & 0x3F,
        "has_sensor": b4 >> 7,
        "temp_unavailable": b5 == 0xFF,          # "Byte5=0xff, Not available"
        "temp_raw": temp_raw(b5, b6),            # Current Temperature = (VALUE - 500)/10
        "spill": (b6 >> 4) & 1,
    }


def ac_status_record(r):
    """r: 8 bytes. Document 4.d."""
    b1, b2, b3, b4, b5, b6, b7, b8 = r
    return {
        "ac_number": b1 & 0x3F,
        "power_code": b1 >> 6,
        "mode_code": b2 >> 4,
        "fan_code": b2 & 0x0F,
        "spill": b3 >> 7,
        "timer_set": (b3 >> 6) & 1,
        "set_point": b3 & 0x3F,
        "temp_unavailable": b5 == 0xFF,
        "temp_raw": temp_raw(b5, b6),
        "error_code": (b7 << 8) | b8,
    }


def ability_record(r):
    """r: 24 or 26 bytes (AC number, following length, ...). Document 4.e.i."""
    d = {
        "ac_number": r[0],
        "following_length": r[1],
        "name_bytes": r[2:18],          # 16 bytes, NUL terminated if shorter
        "start_group": r[18],
        "group_count": r[19],
        "mode_bits": r[20],             # bit1 auto, bit2 heat, bit3 dry, bit4 fan, bit5 cool
        "fan_bits": r[21],              # bit1 auto, quiet, low, medium, high, powerful, bit7 turbo
        "min_set_point": r[22],
        "max_set_point": r[23],
    }
    if len(r) >= 26:
        d["group_bits"] = r[24] | (r[25] << 8)   # byte27 bit1 = group 1 (number 0) ... byte28 bit8 = group 16
    return d


MODE_BIT = {"AUTO": 0, "HEAT": 1, "DRY": 2, "FAN": 3, "COOL": 4}
FAN_BIT = {"AUTO": 0, "QUIET": 1, "LOW": 2, "MEDIUM": 3, "HIGH": 4, "POWERFUL": 5, "TURBO": 6}


def timer_state(b1, b2):
    """UNDOCUMENTED (repo docstring x37): bit8 of byte1 = disabled, low 5 bits hour; byte2 low 6 bits minute."""
    return {"disabled": b1 >> 7, "hour": b1 & 0x1F, "minute": b2 & 0x3F}


def timer_status_record(r):
    """r: 8 bytes: on timer (2), off timer (2), 4 padding. AC number is the record's index."""
    return {"on": timer_state(r[0], r[1]), "off": timer_state(r[2], r[3])}


# ---- commands: meaning of what the client transmits

def group_control(data):
    """data: 4 bytes. Document 4.a."""
    b1, b2, b3, b4 = data
    return {"group_number": b1, "setting_code": b2 >> 5, "method_code": (b2 >> 3) & 3, "power_code": b2 & 7,
            "value": b3, "pad": b4}


def ac_control(data):
    """data: 4 bytes. Document 4.c."""
    b1, b2, b3, b4 = data
    return {"power_code": b1 >> 6, "ac_number": b1 & 0x3F, "mode_code": b2 >> 4, "fan_code": b2 & 0x0F,
            "sp_type": b3 >> 6, "sp_value": b3 & 0x3F, "pad": b4}


# ---- console-side builders (for scripted consoles): bytes from meaning

def _name_bytes(s):
    """A name is a str or already a list of UTF-8 byte values (possibly symbolic)."""
    return list(s.encode("utf-8")) if isinstance(s, str) else list(s)


def c_string(s, n):
    b = _name_bytes(s)[:n]
    return list(b) + [0] * (n - len(b))


def build_ability(ac, name, start_group, group_count, mode_bits, fan_bits, min_sp, max_sp, group_bits=None):
    fl = 22 if group_bits is None else 24
    r = [ac, fl] + c_string(name, 16) + [start_group, group_count, mode_bits, fan_bits, min_sp, max_sp]
    if group_bits is not None:
        r += [group_bits & 0xFF, (group_bits >> 8) & 0xFF]
    return r


def build_group_name(group, name):
    return [group] + c_string(name, 8)


def build_version(update, text):
    b = list(text.encode("utf-8"))
    return [1 if update else 0, len(b)] + b


def build_error(ac, text):
    b = list((text or "").encode("utf-8"))
    return [ac, len(b)] + b


def build_group_status(group, power_code, method_code, pct, battery_low, turbo, set_point, sensor, temp_value, spill):
    """temp_value: 11-bit VALUE or None for 'not available' (byte5 = 0xFF, byte6 temperature bits 0)."""
    if temp_value is None:
        b5, b6hi = 0xFF, 0
    else:
        b5, b6hi = (temp_value >> 3) & 0xFF, (temp_value & 7) << 5
    return [(power_code << 6) | group, (method_code << 7) | pct, (battery_low << 7) | (turbo << 6) | set_point,
            sensor << 7, b5, b6hi | (spill << 4)]


def build_ac_status(ac, power_code, mode_code, fan_code, spill, timer, set_point, temp_value, error):
    return [(power_code << 6) | ac, (mode_code << 4) | fan_code, (spill << 7) | (timer << 6) | set_point, 0,
            (temp_value >> 3) & 0xFF, (temp_value & 7) << 5, (error >> 8) & 0xFF, error & 0xFF]


def build_timer_status(states):
    """states: list of 4 (on_disabled, on_h, on_m, off_disabled, off_h, off_m)."""
    out = []
    for (a, b, c, d, e, f) in states:
        out += [(a << 7) | b, c, (d << 7) | e, f, 0, 0, 0, 0]
    return out
