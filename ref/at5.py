"""Reference reading of AirTouch 5 payloads, written from the vendor document
(AirTouch 5 Communication Protocol v1.2; text in /verif/spec). Works on ints and symbolic ints.

0xC0 data = 8-byte sub header (sub type, 0, normal length(2), repeat length(2), repeat count(2))
followed by normal data and repeat records; records are parsed with the *announced* repeat
length ("If the protocol is upgraded, this value may change. Use this specific value for data parsing").
Messages the vendor does not document (0xC0-32/33 timers, 0xFF49) follow the repo's module
docstrings and are marked UNDOCUMENTED.
"""

T_C0, T_EXT = 0xC0, 0x1F
S_ZONE_CTRL, S_ZONE_STATUS, S_AC_CTRL, S_AC_STATUS = 0x20, 0x21, 0x22, 0x23
S_TIMER_CTRL, S_TIMER_STATUS = 0x32, 0x33                 # UNDOCUMENTED
X_ERROR, X_ABILITY, X_NAMES, X_VERSION, X_QUICK_TIMER = 0xFF10, 0xFF11, 0xFF13, 0xFF30, 0xFF49

ZONE_POWER_STATE = {0: "OFF", 1: "ON", 3: "TURBO"}
ZONE_CONTROL_METHOD = {0: "DAMPER", 1: "TEMPERATURE"}
BATTERY = {0: "NORMAL", 1: "LOW"}
AC_POWER_STATE = {0: "OFF", 1: "ON", 2: "OFF_AWAY", 3: "ON_AWAY", 5: "SLEEP"}
AC_MODE = {0: "AUTO", 1: "HEAT", 2: "DRY", 3: "FAN", 4: "COOL", 8: "AUTO_HEAT", 9: "AUTO_COOL"}
AC_FAN = {0: "AUTO", 1: "QUIET", 2: "LOW", 3: "MEDIUM", 4: "HIGH", 5: "POWERFUL", 6: "TURBO",
          9: "INTELLIGENT_AUTO_QUIET", 10: "INTELLIGENT_AUTO_LOW", 11: "INTELLIGENT_AUTO_MEDIUM",
          12: "INTELLIGENT_AUTO_HIGH", 13: "INTELLIGENT_AUTO_POWERFUL", 14: "INTELLIGENT_AUTO_TURBO"}
# "1001 - 1110: Intelligent Auto": the repo's refinement into the concrete speed follows the
# ordering of codes 1..6 (quiet..turbo) shifted by 8 — stated in the repo's enum, not by the vendor.

CTRL_ZONE_POWER = {1: "TOGGLE", 2: "TURN_OFF", 3: "TURN_ON", 5: "TURBO"}
CTRL_ZONE_SETTING = {2: "DECREASE", 3: "INCREASE", 4: "SET_PERCENTAGE", 5: "SET_SETPOINT"}
CTRL_ZONE_TYPE = {1: "CHANGE", 2: "DAMPER", 3: "TEMPERATURE"}
CTRL_AC_POWER = {1: "TOGGLE", 2: "TURN_OFF", 3: "TURN_ON", 4: "SET_TO_AWAY", 5: "SET_TO_SLEEP"}
CTRL_AC_MODE = {0: "AUTO", 1: "HEAT", 2: "DRY", 3: "FAN", 4: "COOL"}
CTRL_AC_FAN = {0: "AUTO", 1: "QUIET", 2: "LOW", 3: "MEDIUM", 4: "HIGH", 5: "POWERFUL", 6: "TURBO", 8: "INTELLIGENT_AUTO"}

MODE_BIT = {"AUTO": 0, "HEAT": 1, "DRY": 2, "FAN": 3, "COOL": 4}
FAN_BIT = {"AUTO": 0, "QUIET": 1, "LOW": 2, "MEDIUM": 3, "HIGH": 4, "POWERFUL": 5, "TURBO": 6, "INTELLIGENT_AUTO": 7}


def sub_header(d):
    """d: the first 8 bytes of 0xC0 data."""
    return {"sub_type": d[0], "pad": d[1], "normal_len": (d[2] << 8) | d[3], "repeat_len": (d[4] << 8) | d[5],
            "repeat_count": (d[6] << 8) | d[7]}


def zone_status_record(r):
    """r: at least 8 bytes. Document 4.a.ii."""
    b1, b2, b3, b4, b5, b6, b7 = r[0], r[1], r[2], r[3], r[4], r[5], r[6]
    traw = ((b5 & 0x07) << 8) | b6
    return {
        "zone_number": b1 & 0x3F,
        "power_code": b1 >> 6,
        "method_code": b2 >> 7,
        "damper_percentage": b2 & 0x7F,
        "set_point_raw": b3,                  # setpoint = (value+100)/10, 0xFF invalid
        "set_point_invalid": b3 == 0xFF,
        "has_sensor": b4 >> 7,
        "temp_raw": traw,                     # 0-2000: Temperature = (VALUE-500)/10. Other: not available
        "temp_unavailable": traw > 2000,
        "spill": (b7 >> 1) & 1,
        "battery_code": b7 & 1,
    }


def ac_status_record(r):
    """r: at least 8 bytes. Document 4.a.iv."""
    b1, b2, b3, b4, b5, b6, b7, b8 = r[0], r[1], r[2], r[3], r[4], r[5], r[6], r[7]
    traw = ((b5 & 0x07) << 8) | b6
    return {
        "ac_number": b1 & 0x0F,
        "power_code": b1 >> 4,
        "mode_code": b2 >> 4,
        "fan_code": b2 & 0x0F,
        "set_point_raw": b3,                  # 0-250: Setpoint = (VALUE+100)/10. Other: not available
        "set_point_unavailable": b3 > 250,
        "turbo": (b4 >> 3) & 1,
        "bypass": (b4 >> 2) & 1,
        "spill": (b4 >> 1) & 1,
        "timer_set": b4 & 1,
        "temp_raw": traw,
        "temp_unavailable": traw > 2000,
        "error_code": (b7 << 8) | b8,
    }


def ability_record(r):
    """r: 26 bytes. Document 4.b.i."""
    return {
        "ac_number": r[0], "following_length": r[1], "name_bytes": r[2:18], "start_zone": r[18], "zone_count": r[19],
        "mode_bits": r[20], "fan_bits": r[21], "min_cool": r[22], "max_cool": r[23], "min_heat": r[24], "max_heat": r[25],
    }


def timer_state(b1, b2):
    """UNDOCUMENTED (repo docstring xC033)."""
    return {"disabled": b1 >> 7, "hour": b1 & 0x1F, "minute": b2 & 0x3F}


def timer_status_record(r):
    """r: at least 9 bytes: AC number, on timer (2), off timer (2), 4 padding. UNDOCUMENTED."""
    return {"ac_number": r[0], "on": timer_state(r[1], r[2]), "off": timer_state(r[3], r[4])}


def zone_control_record(r):
    """r: 4 bytes. Document 4.a.i."""
    b1, b2, b3, b4 = r
    return {"zone_number": b1, "setting_code": b2 >> 5, "type_code": (b2 >> 3) & 3, "power_code": b2 & 7, "value": b3, "pad": b4}


def ac_control_record(r):
    """r: 4 bytes. Document 4.a.iii."""
    b1, b2, b3, b4 = r
    return {"power_code": b1 >> 4, "ac_number": b1 & 0x0F, "mode_code": b2 >> 4, "fan_code": b2 & 0x0F,
            "sp_control": b3, "sp_value": b4}


# ---- console-side builders

def _name_bytes(s):
    """A name is a str or already a list of UTF-8 byte values (possibly symbolic)."""
    return list(s.encode("utf-8")) if isinstance(s, str) else list(s)


def c_string(s, n):
    b = _name_bytes(s)[:n]
    return list(b) + [0] * (n - len(b))


def build_ability(ac, name, start_zone, zone_count, mode_bits, fan_bits, min_cool, max_cool, min_heat, max_heat):
    return [ac, 24] + c_string(name, 16) + [start_zone, zone_count, mode_bits, fan_bits, min_cool, max_cool, min_heat, max_heat]


def build_zone_name(zone, name):
    b = _name_bytes(name)
    return [zone, len(b)] + b


def build_version(update, text):
    b = list(text.encode("utf-8"))
    return [1 if update else 0, len(b)] + b


def build_error(ac, text):
    b = list((text or "").encode("utf-8"))
    return [ac, len(b)] + b


def build_zone_status(zone, power_code, method_code, pct, set_point_raw, sensor, temp_value, spill, battery_low):
    return [(power_code << 6) | zone, (method_code << 7) | pct, set_point_raw, sensor << 7, (temp_value >> 8) & 7,
            temp_value & 0xFF, (spill << 1) | battery_low, 0]


def build_ac_status(ac, power_code, mode_code, fan_code, set_point_raw, turbo, bypass, spill, timer, temp_value, error, pad=2):
    return [(power_code << 4) | ac, (mode_code << 4) | fan_code, set_point_raw,
            0xC0 | (turbo << 3) | (bypass << 2) | (spill << 1) | timer, (temp_value >> 8) & 7, temp_value & 0xFF,
            (error >> 8) & 0xFF, error & 0xFF] + [0] * pad


def build_timer_status(ac, on_disabled, on_h, on_m, off_disabled, off_h, off_m):
    return [ac, (on_disabled << 7) | on_h, on_m, (off_disabled << 7) | off_h, off_m, 0, 0, 0, 0]
