"""Reference CRC-16/MODBUS: bitwise, reflected polynomial 0xA001, init 0xFFFF, no final xor.
Written from the algorithm's definition (not from the repo's table). Works on ints and SymInts."""


def _poly_if(lsb):
    """0xA001 when the shifted-out bit is 1, else 0 (no forking on symbolic values)."""
    if isinstance(lsb, int):
        return 0xA001 if lsb else 0
    from sx.values import sym_ite
    return sym_ite(lsb == 1, 0xA001, 0)


def crc16_modbus(data):
    crc = 0xFFFF
    for b in data:
        crc = crc ^ b
        for _ in range(8):
            lsb = crc & 1
            crc = crc >> 1
            crc = crc ^ _poly_if(lsb)
    return crc


def check_bytes(data):
    """The two check bytes as transmitted: high byte first."""
    c = crc16_modbus(data)
    return [(c >> 8) & 0xFF, c & 0xFF]


# known answers from the vendor documents (frames quoted in the AT4 v1.6 / AT5 v1.2 PDFs)
VENDOR_VECTORS = [
    # (bytes covered by the CRC, check bytes)
    (bytes.fromhex("80b0012a000401020000"), bytes.fromhex("da59")),
    (bytes.fromhex("80b0012a000400100000"), bytes.fromhex("23f8")),
    (bytes.fromhex("80b0012b0000"), bytes.fromhex("f52f")),
    (bytes.fromhex("80b0012c000481ff3f00"), bytes.fromhex("1a96")),
    (bytes.fromhex("80b0012d0000"), bytes.fromhex("f4cf")),
    (bytes.fromhex("90b0011f0003ff1100"), bytes.fromhex("0983")),
    (bytes.fromhex("90b0011f0002ff30"), bytes.fromhex("9b8c")),
    (bytes.fromhex("80b00fc0000c2000000000040001" "0102ff00"), bytes.fromhex("f0a1")),
    (bytes.fromhex("80b001c000082100000000000000"), bytes.fromhex("a431")),
    (bytes.fromhex("80b001c000082300000000000000"), bytes.fromhex("7db0")),
    (bytes.fromhex("80b001c0000c2200000000040001" "21ff00ff"), bytes.fromhex("d347")),
    (bytes.fromhex("90b0011f0002ff13"), bytes.fromhex("42cd")),
    (b"123456789", bytes.fromhex("4b37")),  # the standard CRC-16/MODBUS check value 0x4B37
]


def selftest():
    bad = 0
    for data, chk in VENDOR_VECTORS:
        if bytes(check_bytes(data)) != chk:
            bad += 1
    return len(VENDOR_VECTORS), bad
