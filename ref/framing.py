"""Reference framing for both generations (written from the vendor documents; the AT5 outer
header 55 55 55 AB 00 00 L L is undocumented by the vendor — reference is docs/design.md's
recorded frames: L = 10 (inner header) + data + 2 (check bytes), given twice)."""
from .crc import check_bytes

ADDR_CONSOLE = 0x80
ADDR_CONSOLE_EXT = 0x90
ADDR_CLIENT = 0xB0
TYPE_EXT = 0x1F
TYPE_C0 = 0xC0


def be16(v):
    return [(v >> 8) & 0xFF, v & 0xFF]


def frame(gen, to, frm, pid, mtype, data):
    """Complete frame as a list of byte values (ints or symbolic)."""
    data = list(data)
    n = len(data)
    covered = [to, frm, pid, mtype] + be16(n) + data
    chk = check_bytes(covered)
    if gen == 4:
        return [0x55, 0x55] + covered + chk
    total = 10 + n + 2
    return [0x55, 0x55, 0x55, 0xAB, 0, 0] + be16(total) + be16(total) + [0x55, 0x55, 0x55, 0xAA] + covered + chk


def header_len(gen):
    return 8 if gen == 4 else 20


def covered_start(gen):
    return 2 if gen == 4 else 14


def parse_stream(gen, items):
    """Split a concrete byte list into frames. Returns list of dicts; raises ValueError when malformed."""
    items = list(items)
    out = []
    p = 0
    hl = header_len(gen)
    while p < len(items):
        h = items[p:p + hl]
        if len(h) < hl:
            raise ValueError("truncated header")
        if gen == 4:
            if h[0:2] != [0x55, 0x55]:
                raise ValueError("bad prefix")
            to, frm, pid, mtype, lh, ll = h[2:8]
        else:
            if h[0:4] != [0x55, 0x55, 0x55, 0xAB] or h[4:6] != [0, 0]:
                raise ValueError("bad outer prefix")
            if h[10:14] != [0x55, 0x55, 0x55, 0xAA]:
                raise ValueError("bad inner prefix")
            to, frm, pid, mtype, lh, ll = h[14:20]
        n = (lh << 8) | ll
        if gen == 5:
            tot = 10 + n + 2
            if h[6:8] != be16(tot) or h[8:10] != be16(tot):
                raise ValueError("outer length mismatch")
        data = items[p + hl:p + hl + n]
        chk = items[p + hl + n:p + hl + n + 2]
        if len(data) < n or len(chk) < 2:
            raise ValueError("truncated frame")
        covered = items[p + covered_start(gen):p + hl + n]
        out.append(dict(to=to, frm=frm, pid=pid, type=mtype, data=data, crc_ok=(check_bytes(covered) == chk),
                        raw=items[p:p + hl + n + 2]))
        p += hl + n + 2
    return out


def ext(sub_id, payload):
    """0x1F data: two-byte sub id + payload."""
    return be16(sub_id) + list(payload)


def c0(sub_type, normal, repeat_len, repeat_count, payload):
    """0xC0 data: 8-byte sub header + payload."""
    return [sub_type, 0] + be16(len(normal)) + be16(repeat_len) + be16(repeat_count) + list(normal) + list(payload)


# frames quoted in the vendor documents (complete frames) — used to validate this module
VENDOR_FRAMES_AT4 = [
    "555580b0012a000401020000da59",
    "555580b0012b0000f52f",
    "555580b0012c000481ff3f001a96",
    "555590b0011f0003ff11000983",
    "555590b0011f0002ff309b8c",
]
VENDOR_FRAMES_AT5_INNER = [
    "555555aa80b00fc0000c20000000000400010102ff00f0a1",
    "555555aa80b001c000082100000000000000a431",
    "555555aa80b001c0000c220000000004000121ff00ffd347",
    "555555aa90b0011f0002ff3042cd".replace("ff3042cd", "ff1342cd"),
]
DESIGN_MD_FRAMES_AT5 = [
    "555555ab0000000e000e555555aa90b0311f0002ff13b2c8",
    "555555ab0000000e000e555555aab090311f0002ff1368eb",
]


def selftest():
    bad = 0
    n = 0
    for hx in VENDOR_FRAMES_AT4:
        b = list(bytes.fromhex(hx))
        n += 1
        fr = parse_stream(4, b)
        if len(fr) != 1 or not fr[0]["crc_ok"] or frame(4, fr[0]["to"], fr[0]["frm"], fr[0]["pid"], fr[0]["type"], fr[0]["data"]) != b:
            bad += 1
    for hx in VENDOR_FRAMES_AT5_INNER:
        b = list(bytes.fromhex(hx))
        n += 1
        # documented (inner) part must be the tail of our AT5 frame
        to, frm, pid, mtype = b[4:8]
        ln = (b[8] << 8) | b[9]
        f = frame(5, to, frm, pid, mtype, b[10:10 + ln])
        if f[10:] != b:
            bad += 1
    for hx in DESIGN_MD_FRAMES_AT5:
        b = list(bytes.fromhex(hx))
        n += 1
        fr = parse_stream(5, b)
        if len(fr) != 1 or not fr[0]["crc_ok"] or frame(5, fr[0]["to"], fr[0]["frm"], fr[0]["pid"], fr[0]["type"], fr[0]["data"]) != b:
            bad += 1
    return n, bad
