#!/bin/sh
# Offline build of the check environment: a venv overlaying /venv (which holds
# the repository's own dependencies) plus z3-solver / cvc5 / jsonschema from the wheelhouse.
set -e
cd "$(dirname "$0")"
if [ ! -x .venv/bin/python ] || ! .venv/bin/python -c "import z3, jsonschema" 2>/dev/null; then
  rm -rf .venv
  /venv/bin/python -m venv .venv
  SP=$(.venv/bin/python -c "import sysconfig; print(sysconfig.get_paths()['purelib'])")
  echo "import site; site.addsitedir('/venv/lib/python3.12/site-packages')" > "$SP/_overlay.pth"
  PIP_NO_INDEX=1 .venv/bin/pip install -q --no-index --find-links /opt/veriftools/wheels z3-solver jsonschema cvc5 || \
  PIP_NO_INDEX=1 .venv/bin/pip install -q --no-index --find-links /opt/veriftools/wheels z3-solver jsonschema
fi
.venv/bin/python -c "import z3, jsonschema; print('z3', z3.get_version_string())"
