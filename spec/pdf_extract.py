import re, sys, zlib
data = open(sys.argv[1],'rb').read()
# collect objects
objs = {}
for m in re.finditer(rb'(\d+) (\d+) obj(.*?)endobj', data, re.S):
    objs[int(m.group(1))] = m.group(3)
def stream_of(body):
    m = re.search(rb'stream\r?\n(.*?)\r?\nendstream', body, re.S)
    if not m: return None
    s = m.group(1)
    if b'FlateDecode' in body:
        try: s = zlib.decompress(s)
        except Exception as e:
            try: s = zlib.decompressobj().decompress(s)
            except Exception: return None
    return s
print(len(objs), 'objects', file=sys.stderr)
# parse ToUnicode cmaps
cmaps = {}
for n, body in objs.items():
    s = stream_of(body)
    if s and b'beginbfchar' in s or (s and b'beginbfrange' in s):
        cm = {}
        for blk in re.findall(rb'beginbfchar(.*?)endbfchar', s, re.S):
            for a,b in re.findall(rb'<([0-9A-Fa-f]+)>\s*<([0-9A-Fa-f]+)>', blk):
                cm[int(a,16)] = bytes.fromhex(b.decode()).decode('utf-16-be','replace')
        for blk in re.findall(rb'beginbfrange(.*?)endbfrange', s, re.S):
            for a,b,c in re.findall(rb'<([0-9A-Fa-f]+)>\s*<([0-9A-Fa-f]+)>\s*<([0-9A-Fa-f]+)>', blk):
                a,b,c = int(a,16), int(b,16), int(c,16)
                for i in range(a,b+1): cm[i] = chr(c+i-a)
        cmaps[n] = cm
print('cmaps', {k:len(v) for k,v in cmaps.items()}, file=sys.stderr)
# font objects -> ToUnicode
font_tou = {}
for n, body in objs.items():
    if b'/Type /Font' in body or b'/Type/Font' in body:
        m = re.search(rb'/ToUnicode (\d+) 0 R', body)
        if m: font_tou[n] = int(m.group(1))
# pages: find resources font name map
def decode_text(s, fonts):
    out = []
    cur = None
    for tok in re.finditer(rb'/(\w+) [\d.]+ Tf|\[(.*?)\]\s*TJ|\((.*?)(?<!\\)\)\s*Tj|<([0-9A-Fa-f]+)>\s*Tj|(ET)|(T\*|Td|TD|Tm)', s, re.S):
        if tok.group(1):
            cur = fonts.get(tok.group(1).decode())
        elif tok.group(2) is not None:
            arr = tok.group(2)
            for p in re.finditer(rb'\((.*?)(?<!\\)\)|<([0-9A-Fa-f]+)>|(-?[\d.]+)', arr, re.S):
                if p.group(1) is not None:
                    out.append(dec_str(p.group(1), cur))
                elif p.group(2) is not None:
                    out.append(dec_hex(p.group(2), cur))
                elif p.group(3):
                    try:
                        if float(p.group(3)) < -200: out.append(' ')
                    except: pass
        elif tok.group(3) is not None:
            out.append(dec_str(tok.group(3), cur))
        elif tok.group(4) is not None:
            out.append(dec_hex(tok.group(4), cur))
        elif tok.group(5):
            out.append('\n')
        elif tok.group(6):
            out.append(' | ')
    return ''.join(out)
def unesc(b):
    return re.sub(rb'\\([nrtbf()\\]|[0-7]{1,3})', lambda m: {b'n':b'\n',b'r':b'\r',b't':b'\t',b'b':b'\b',b'f':b'\f',b'(':b'(',b')':b')',b'\\':b'\\'}.get(m.group(1), None) or bytes([int(m.group(1),8)&255]), b)
def dec_str(b, cm):
    b = unesc(b)
    if cm:
        # guess 1 or 2 byte
        if all(k < 256 for k in cm): return ''.join(cm.get(x, chr(x)) for x in b)
        return ''.join(cm.get(int.from_bytes(b[i:i+2],'big'), '?') for i in range(0,len(b),2))
    return b.decode('latin-1')
def dec_hex(h, cm):
    h = h.decode()
    if len(h)%2: h += '0'
    b = bytes.fromhex(h)
    if cm:
        if all(k < 256 for k in cm): return ''.join(cm.get(x, chr(x)) for x in b)
        return ''.join(cm.get(int.from_bytes(b[i:i+2],'big'), '?') for i in range(0,len(b),2))
    return b.decode('latin-1')
pages = [(n,b) for n,b in objs.items() if re.search(rb'/Type\s*/Page\b', b)]
print(len(pages),'pages', file=sys.stderr)
for n, body in sorted(pages):
    fonts = {}
    res = body
    m = re.search(rb'/Resources (\d+) 0 R', body)
    if m: res = objs[int(m.group(1))]
    fm = re.search(rb'/Font\s*<<(.*?)>>', res, re.S)
    if not fm:
        m2 = re.search(rb'/Font (\d+) 0 R', res)
        if m2: fm_body = objs[int(m2.group(1))]
        else: fm_body = b''
    else: fm_body = fm.group(1)
    for name, ref in re.findall(rb'/(\w+) (\d+) 0 R', fm_body):
        tu = font_tou.get(int(ref))
        fonts[name.decode()] = cmaps.get(tu) if tu else None
    cont = re.search(rb'/Contents (\d+) 0 R', body)
    conts = []
    if cont: conts=[int(cont.group(1))]
    else:
        m3 = re.search(rb'/Contents\s*\[(.*?)\]', body, re.S)
        if m3: conts=[int(x) for x in re.findall(rb'(\d+) 0 R', m3.group(1))]
    print(f'\n===== PAGE obj {n} =====')
    for c in conts:
        s = stream_of(objs[c])
        if s: print(decode_text(s, fonts))
