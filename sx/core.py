"""sx core: replay-based symbolic exploration of real Python code with z3.

A *path* is the list of decisions taken at SymBool.__bool__.  The harness
function is re-executed from scratch for every path; decisions below the
prefix are replayed without solver calls, new decisions are decided by z3.

Invariant kept by SymCtx: ``self.model`` (name -> python value) satisfies the
whole path condition, so at a new branch only the *other* side needs a query.
"""
from __future__ import annotations

import os
import time
from fractions import Fraction

import z3

W = 64  # bit-vector width used for Python ints (guarded by interval tracking)


ACTIVE = None  # the active context (SymCtx or ReplayCtx)


class EngineSignal(BaseException):
    """Base of the engine's control-flow exceptions. asyncio.Task stores BaseExceptions raised
    inside coroutines instead of propagating them, so every signal also registers itself in the
    active context; the virtual loops and run_path re-raise it from there."""

    def __init__(self, *a):
        super().__init__(*a)
        if ACTIVE is not None and getattr(ACTIVE, "fatal", None) is None:
            ACTIVE.fatal = self


class PathAbort(EngineSignal):
    """The current path is abandoned (infeasible assumption, violation found...)."""


class ViolationFound(PathAbort):
    pass


class Inconclusive(EngineSignal):
    """Solver said unknown / budget exceeded: the run cannot be called 'held'."""


class EngineUnsupported(EngineSignal):
    """The engine met something it cannot model soundly (never reported as 'held')."""


def raise_pending():
    """Re-raise an engine signal that was swallowed somewhere (e.g. by an asyncio.Task)."""
    if ACTIVE is not None and getattr(ACTIVE, "fatal", None) is not None:
        raise ACTIVE.fatal


CUR = None  # the active symbolic context (SymCtx); None when no symbolic run is active


def cur():
    if CUR is None:
        raise RuntimeError("symbolic value used outside a symbolic run")
    return CUR


# --------------------------------------------------------------------------- vars

_VARS_CACHE: dict = {}   # ast id -> (ast kept alive so the id cannot be recycled, frozenset of names)


def expr_vars(e) -> frozenset:
    """Names of the uninterpreted constants in e (memoised per AST; the AST is kept alive)."""
    key = e.get_id()
    r = _VARS_CACHE.get(key)
    if r is not None:
        return r[1]
    out = set()
    seen = set()
    stack = [e]
    while stack:
        t = stack.pop()
        i = t.get_id()
        if i in seen:
            continue
        seen.add(i)
        c = _VARS_CACHE.get(i)
        if c is not None:
            out |= c[1]
            continue
        if z3.is_const(t):
            if t.decl().kind() == z3.Z3_OP_UNINTERPRETED:
                out.add(t.decl().name())
        else:
            stack.extend(t.children())
    r = frozenset(out)
    if len(_VARS_CACHE) > 100000:
        _VARS_CACHE.clear()
    _VARS_CACHE[key] = (e, r)
    return r


def _has_fp(e) -> bool:
    seen = set()
    stack = [e]
    while stack:
        t = stack.pop()
        i = t.get_id()
        if i in seen:
            continue
        seen.add(i)
        k = t.sort_kind()
        if k in (z3.Z3_FLOATING_POINT_SORT, z3.Z3_ROUNDING_MODE_SORT):
            return True
        stack.extend(t.children())
    return False


class Stats:
    FIELDS = ("paths", "decisions", "forced", "solver_calls", "solver_s", "unknown",
              "obligations", "discharged", "assume_pruned", "fp_queries", "max_depth",
              "xc_queries", "xc_agree", "xc_unknown", "xc_disagree", "xc_s")

    def __init__(self):
        for f in self.FIELDS:
            setattr(self, f, 0)
        self.solver_s = 0.0

    def add(self, other):
        for f in self.FIELDS:
            if f == "max_depth":
                self.max_depth = max(self.max_depth, other.max_depth)
            else:
                setattr(self, f, getattr(self, f) + getattr(other, f))

    def as_dict(self):
        d = {f: getattr(self, f) for f in self.FIELDS}
        d["solver_s"] = round(d["solver_s"], 3)
        return d


SOLVER_TIMEOUT_MS = 300000

# Second opinion (thorough tier): a sample of the unsat verdicts that decide an obligation or prune a branch is
# re-discharged with cvc5 (sx/xcheck.py). Budget per worker process, one query in XC_STRIDE, XC_TIMEOUT_S each.
XC_LEFT = int(os.environ.get("VERIF_XCHECK_OBL", "0") or 0)
XC_STRIDE = int(os.environ.get("VERIF_XCHECK_STRIDE", "5") or 5)
XC_TIMEOUT_S = float(os.environ.get("VERIF_XCHECK_TIMEOUT", "10") or 10)
_xc_seen = 0


class SymCtx:
    """Context of one symbolic path."""

    symbolic = True

    def __init__(self, prefix=(), model=None, stats=None, known_open=(), seed=0):
        self.prefix = list(prefix)
        self.decisions: list[bool] = []
        self.pc: list = []          # conjuncts (z3 Bool)
        self.pc_vars: list = []     # vars of each conjunct
        self.model: dict = dict(model or {})
        self.vars: dict = {}        # name -> z3 const (inputs and internals)
        self.inputs: dict = {}      # name -> ("bv"/"real"/"bool", z3 const) declared harness inputs, in order
        self.pending: list = []     # alternatives discovered on this path: (decisions, model)
        self.stats = stats or Stats()
        self.violations: list = []  # (label, assignment, detail)
        self.known_hits: list = []  # (finding_id, label, assignment)
        self.known_open = set(known_open)
        self.reached: dict = {}     # label -> count
        self.observations: list = []
        self.notes: dict = {}
        self.seed = seed
        self._fresh = 0
        self.fatal = None

    # -- variables ---------------------------------------------------------
    def _declare(self, name, kind, var):
        if name in self.inputs:
            raise RuntimeError(f"duplicate input name {name}")
        self.inputs[name] = (kind, var)
        self.vars[name] = var

    def fresh_name(self, base):
        self._fresh += 1
        return f"{base}!{self._fresh}"

    # -- model handling ------------------------------------------------------
    def _val_expr(self, name, var):
        v = self.model.get(name)
        s = var.sort()
        k = s.kind()
        if k == z3.Z3_BV_SORT:
            return z3.BitVecVal(0 if v is None else v, s.size())
        if k == z3.Z3_REAL_SORT:
            return z3.RealVal(0 if v is None else v)
        if k == z3.Z3_BOOL_SORT:
            return z3.BoolVal(bool(v))
        if k == z3.Z3_INT_SORT:
            return z3.IntVal(0 if v is None else v)
        raise EngineUnsupported(f"model value for sort {s}")

    def eval_model(self, e):
        """Evaluate boolean e under self.model (defaults for missing vars)."""
        names = expr_vars(e)
        subs = []
        for n in names:
            var = self.vars.get(n)
            if var is None:
                raise RuntimeError(f"unknown variable {n}")
            subs.append((var, self._val_expr(n, var)))
        r = z3.simplify(z3.substitute(e, *subs)) if subs else z3.simplify(e)
        if z3.is_true(r):
            return True
        if z3.is_false(r):
            return False
        return None  # could not evaluate (e.g. FP corner) -> caller must query

    def _update_model(self, m):
        for d in m.decls():
            n = d.name()
            if n not in self.vars:
                continue
            v = m[d]
            k = v.sort_kind()
            if k == z3.Z3_BV_SORT:
                self.model[n] = v.as_long()
            elif k == z3.Z3_REAL_SORT:
                if z3.is_algebraic_value(v):
                    v = v.approx(20)
                self.model[n] = Fraction(v.numerator_as_long(), v.denominator_as_long())
            elif k == z3.Z3_BOOL_SORT:
                self.model[n] = z3.is_true(v)
            elif k == z3.Z3_INT_SORT:
                self.model[n] = v.as_long()

    # -- solving ------------------------------------------------------------
    def _slice(self, extra_vars):
        """Conjuncts transitively sharing variables with extra_vars."""
        need = set(extra_vars)
        chosen = [False] * len(self.pc)
        changed = True
        while changed:
            changed = False
            for i, vs in enumerate(self.pc_vars):
                if not chosen[i] and vs & need:
                    chosen[i] = True
                    if not vs <= need:
                        need |= vs
                        changed = True
        return [self.pc[i] for i, c in enumerate(chosen) if c]

    def solve(self, *extra, want_model=True, timeout_ms=None):
        """Check pc-slice ∧ extra. Returns ('sat', model|None) / ('unsat', None) / ('unknown', None)."""
        vs = set()
        for x in extra:
            vs |= expr_vars(x)
        cons = self._slice(vs)
        sv = set(vs)
        for c in cons:
            sv |= expr_vars(c)
        self._last_slice_vars = sv
        t0 = time.perf_counter()
        s = z3.Solver()
        s.set("timeout", timeout_ms or SOLVER_TIMEOUT_MS)
        s.add(*cons)
        s.add(*extra)
        self._last_query = list(cons) + list(extra)
        r = s.check()
        dt = time.perf_counter() - t0
        self.stats.solver_calls += 1
        self.stats.solver_s += dt
        if r == z3.sat:
            return "sat", (s.model() if want_model else None)
        if r == z3.unsat:
            return "unsat", None
        self.stats.unknown += 1
        return "unknown", None

    def second_opinion(self, what):
        """z3 has just answered unsat for self._last_query: ask cvc5 too (sampled, budgeted). A 'sat' is never ignored."""
        global XC_LEFT, _xc_seen
        if XC_LEFT <= 0:
            return
        _xc_seen += 1
        if _xc_seen % XC_STRIDE:
            return
        XC_LEFT -= 1
        from .xcheck import cvc5_check
        r, dt = cvc5_check(self._last_query, timeout_s=XC_TIMEOUT_S)
        if r == "unavailable":
            XC_LEFT = 0
            return
        self.stats.xc_queries += 1
        self.stats.xc_s += dt
        if r == "unsat":
            self.stats.xc_agree += 1
        elif r == "sat":
            self.stats.xc_disagree += 1
            raise Inconclusive(f"solver disagreement at {what}: z3 unsat, cvc5 sat")
        else:
            self.stats.xc_unknown += 1

    def _add(self, e):
        self.pc.append(e)
        self.pc_vars.append(expr_vars(e))

    # -- branching ----------------------------------------------------------
    def branch(self, e) -> bool:
        e = z3.simplify(e)
        if z3.is_true(e):
            return True
        if z3.is_false(e):
            return False
        i = len(self.decisions)
        if i < len(self.prefix):
            d = self.prefix[i]
            self.decisions.append(d)
            self._add(e if d else z3.Not(e))
            return d
        if i > 4000:
            raise Inconclusive("path too deep (>4000 decisions)")
        mv = self.eval_model(e)
        if mv is None:
            return self._branch_both(e)
        other = z3.Not(e) if mv else e
        r, m = self.solve(other)
        if r == "unknown":
            raise Inconclusive("solver unknown at branch")
        self.stats.decisions += 1
        if r == "sat":
            alt_model = dict(self.model)
            saved = self.model
            self.model = alt_model
            self._update_model(m)
            self.model = saved
            self.pending.append((self.decisions + [not mv], alt_model))
        else:
            self.stats.forced += 1
            self.second_opinion("pruned branch")
        self.decisions.append(mv)
        self._add(e if mv else z3.Not(e))
        self.stats.max_depth = max(self.stats.max_depth, len(self.decisions))
        return mv

    def _branch_both(self, e):
        """Model evaluation failed: decide both sides with the solver."""
        r1, m1 = self.solve(e)
        r2, m2 = self.solve(z3.Not(e))
        if "unknown" in (r1, r2):
            raise Inconclusive("solver unknown at branch")
        self.stats.decisions += 1
        if r1 == "sat" and r2 == "sat":
            alt = dict(self.model)
            saved, self.model = self.model, alt
            self._update_model(m2)
            self.model = saved
            self.pending.append((self.decisions + [False], alt))
            self._update_model(m1)
            d = True
        elif r1 == "sat":
            self.stats.forced += 1
            self._update_model(m1)
            d = True
        elif r2 == "sat":
            self.stats.forced += 1
            self._update_model(m2)
            d = False
        else:
            raise Inconclusive("path condition became unsatisfiable (model invariant lost)")
        self.decisions.append(d)
        self._add(e if d else z3.Not(e))
        self.stats.max_depth = max(self.stats.max_depth, len(self.decisions))
        return d

    def constrain(self, e):
        """Add e to the path condition, keeping the model invariant. False if infeasible."""
        e = z3.simplify(e)
        if z3.is_true(e):
            return True
        if z3.is_false(e):
            return False
        mv = self.eval_model(e)
        if mv is not True:
            r, m = self.solve(e)
            if r == "unknown":
                raise Inconclusive("solver unknown at assume")
            if r == "unsat":
                return False
            self._update_model(m)
        self._add(e)
        return True

    # -- harness API ----------------------------------------------------------
    def assume(self, b):
        from .values import SymBool
        if isinstance(b, SymBool):
            ok = self.constrain(b.e)
        else:
            ok = bool(b)
        if not ok:
            self.stats.assume_pruned += 1
            raise PathAbort("assumption infeasible on this path")

    def assignment(self, m=None):
        """Concrete values of all declared inputs (from a z3 model or self.model)."""
        out = {}
        in_slice = getattr(self, "_last_slice_vars", None) if m is not None else None
        for n, (kind, var) in self.inputs.items():
            if m is not None and (in_slice is None or n in in_slice):
                v = m.eval(var, model_completion=True)
                if kind in ("bv",):
                    out[n] = v.as_long()
                elif kind == "sbv":
                    out[n] = v.as_signed_long()
                elif kind == "real":
                    if z3.is_algebraic_value(v):
                        v = v.approx(20)
                    out[n] = Fraction(v.numerator_as_long(), v.denominator_as_long())
                elif kind == "bool":
                    out[n] = z3.is_true(v)
            else:
                v = self.model.get(n)
                if kind == "sbv" and v is not None and v >= 1 << (W - 1):
                    v -= 1 << W
                out[n] = (False if kind == "bool" else 0) if v is None else v
        return out

    def make_dyadic(self):
        """Move self.model to a model of the path condition whose real inputs are multiples of 2^-k. False if none found."""
        reals = [var for (kind, var) in self.inputs.values() if kind == "real"]
        if not reals:
            return True
        for den in (8, 256, 65536):
            r, m = self.solve(*[z3.IsInt(v * den) for v in reals], timeout_ms=10000)
            if r == "sat":
                self._update_model(m)
                return True
        return False

    def _nice_model(self, neg):
        """Model of pc ∧ neg, preferring dyadic reals (exact as floats on the stock loop)."""
        reals = [var for (kind, var) in self.inputs.values() if kind == "real"]
        if reals:
            for den in (4, 64, 4096):
                extra = [z3.IsInt(v * den) for v in reals]
                r, m = self.solve(neg, *extra, timeout_ms=20000)
                if r == "sat":
                    return m
        r, m = self.solve(neg)
        return m if r == "sat" else None

    def check(self, b, label, known=(), detail=None):
        """Obligation: b must hold on this path for all inputs. known = [(finding_id, region)]."""
        from .values import SymBool, as_bool_expr
        detail = _plain(detail)
        self.reached[label] = self.reached.get(label, 0) + 1
        self.stats.obligations += 1
        e = as_bool_expr(b)
        neg = z3.simplify(z3.Not(e))
        if z3.is_false(neg):
            self.stats.discharged += 1
            return True
        # known-finding regions that are listed as open are carved out (after a witness is taken)
        for fid, region in known:
            if fid not in self.known_open:
                continue
            re_ = as_bool_expr(region)
            r, _ = self.solve(neg, re_, want_model=False)
            if r == "unknown":
                raise Inconclusive(f"solver unknown at known-finding region {fid}")
            if r == "sat":
                m = self._nice_model(z3.And(neg, re_))
                self.known_hits.append((fid, label, self.assignment(m), detail))
            neg = z3.And(neg, z3.Not(re_))
        neg = z3.simplify(neg)
        if z3.is_false(neg):
            self.stats.discharged += 1
            return True
        if _has_fp(neg):
            self.stats.fp_queries += 1
        r, m = self.solve(neg, want_model=False)
        if r == "unsat":
            self.second_opinion(f"obligation {label}")
            self.stats.discharged += 1
            return True
        if r == "unknown":
            raise Inconclusive(f"solver unknown at obligation {label}")
        m = self._nice_model(neg)
        self.violations.append((label, self.assignment(m), detail))
        raise ViolationFound(label)

    def reach(self, label):
        self.reached[label] = self.reached.get(label, 0) + 1

    def observe(self, tag, value=None):
        self.observations.append((tag, value))

    def note(self, key, value):
        self.notes[key] = value

    # inputs -------------------------------------------------------------------
    def byte(self, name):
        from .values import SymInt
        v = z3.BitVec(name, 8)
        self._declare(name, "bv", v)
        return SymInt(z3.ZeroExt(W - 8, v), 0, 255)

    def bits(self, name, nbits):
        from .values import SymInt
        v = z3.BitVec(name, nbits)
        self._declare(name, "bv", v)
        return SymInt(z3.ZeroExt(W - nbits, v), 0, (1 << nbits) - 1)

    def int(self, name, lo, hi):
        from .values import SymInt
        if lo == hi:
            return lo
        v = z3.BitVec(name, W)
        self._declare(name, "sbv", v)
        if not self.constrain(z3.And(v >= lo, v <= hi)):
            raise PathAbort("empty range")
        return SymInt(v, lo, hi)

    def bool(self, name):
        from .values import SymBool
        v = z3.Bool(name)
        self._declare(name, "bool", v)
        return SymBool(v)

    def real(self, name, lo=None, hi=None, lo_strict=False, hi_strict=False):
        from .values import SymReal
        v = z3.Real(name)
        self._declare(name, "real", v)
        cs = []
        if lo is not None:
            cs.append(v > _rv(lo) if lo_strict else v >= _rv(lo))
        if hi is not None:
            cs.append(v < _rv(hi) if hi_strict else v <= _rv(hi))
        if cs and not self.constrain(z3.And(*cs)):
            raise PathAbort("empty range")
        return SymReal(v)

    def choice(self, name, n):
        """A concrete index 0..n-1, chosen by forking."""
        if n <= 1:
            return 0
        v = self.int(name, 0, n - 1)
        for i in range(n - 1):
            if v == i:
                return i
        return n - 1


def _plain(d, depth=0):
    """Details travel between processes and into JSON: keep only plain data (proxies become their repr)."""
    if d is None or isinstance(d, (bool, int, float, str)):
        return d
    if depth > 6:
        return repr(d)[:200]
    if isinstance(d, dict):
        return {str(k): _plain(v, depth + 1) for k, v in d.items()}
    if isinstance(d, (list, tuple)):
        return [_plain(v, depth + 1) for v in d]
    return repr(d)[:300]


def _rv(x):
    from .values import SymReal
    if isinstance(x, SymReal):
        return x.e
    if isinstance(x, float):
        return z3.RealVal(Fraction(x))
    return z3.RealVal(x)


class ReplayCtx:
    """Concrete twin of SymCtx: inputs come from an assignment, checks are evaluated."""

    symbolic = False

    def __init__(self, assignment, known_open=()):
        self.a = dict(assignment)
        self.violations = []
        self.known_hits = []
        self.known_open = set(known_open)
        self.observations = []
        self.reached = {}
        self.notes = {}
        self.used = set()
        self.fatal = None

    def _get(self, name, default=0):
        self.used.add(name)
        return self.a.get(name, default)

    def byte(self, name):
        return int(self._get(name)) & 0xFF

    def bits(self, name, nbits):
        return int(self._get(name)) & ((1 << nbits) - 1)

    def int(self, name, lo, hi):
        if lo == hi:
            return lo
        v = int(self._get(name, lo))
        if not lo <= v <= hi:
            raise PathAbort("assignment outside range")
        return v

    def bool(self, name):
        return bool(self._get(name, False))

    def real(self, name, lo=None, hi=None, lo_strict=False, hi_strict=False):
        v = self._get(name, lo if lo is not None else 0)
        f = float(Fraction(v))
        return f

    def choice(self, name, n):
        if n <= 1:
            return 0
        return self.int(name, 0, n - 1)

    def assume(self, b):
        if not b:
            raise PathAbort("assumption false in replay")

    def check(self, b, label, known=(), detail=None):
        self.reached[label] = self.reached.get(label, 0) + 1
        if bool(b):
            return True
        for fid, region in known:
            if fid in self.known_open and bool(region):
                # a recorded finding: noted, and the run goes on (as the symbolic run does after carving the region out)
                self.known_hits.append((fid, label, None, detail))
                return True
        self.violations.append((label, None, detail))
        raise ViolationFound(label)

    def reach(self, label):
        self.reached[label] = self.reached.get(label, 0) + 1

    def observe(self, tag, value=None):
        self.observations.append((tag, value))

    def note(self, key, value):
        self.notes[key] = value


# ------------------------------------------------------------------------- explorer

class PathResult:
    __slots__ = ("status", "decisions", "violations", "known_hits", "reached", "detail",
                 "observations", "assignment", "notes")

    def __init__(self):
        self.status = "ok"
        self.violations = []
        self.known_hits = []
        self.reached = {}
        self.detail = None
        self.observations = None
        self.assignment = None
        self.notes = None
        self.decisions = None


def run_path(fn, params, prefix, model, stats, known_open=(), keep_obs=False, seed=0):
    """Execute one path of fn(ctx, params). Returns (PathResult, pending alternatives)."""
    from . import core
    from . import procstate
    procstate.restore()          # process-wide objects of the package start every path as a fresh process has them
    ctx = SymCtx(prefix, model, stats, known_open, seed)
    res = PathResult()
    core.CUR = ctx
    core.ACTIVE = ctx
    try:
        try:
            fn(ctx, params)
            raise_pending()
        except ViolationFound:
            res.status = "violation"
        except PathAbort as e:
            res.status = "abort"
            res.detail = str(e)
        except Inconclusive as e:
            res.status = "inconclusive"
            res.detail = str(e)
        except EngineUnsupported as e:
            res.status = "unsupported"
            res.detail = str(e)
    finally:
        core.CUR = None
        core.ACTIVE = None
    stats.paths += 1
    res.violations = ctx.violations
    res.known_hits = ctx.known_hits
    res.reached = ctx.reached
    res.decisions = len(ctx.decisions)
    res.notes = ctx.notes
    if keep_obs and res.status == "ok":
        # sampled path for trace validation: prefer a model whose real-valued inputs are dyadic rationals, so that the
        # stock loop's float clock reproduces every instant exactly (otherwise float rounding can flip a comparison)
        core.CUR = ctx
        try:
            if ctx.make_dyadic():
                res.assignment = ctx.assignment()
                res.observations = concretise_obs(ctx, ctx.observations)
        except (EngineSignal, Exception):
            pass
        finally:
            core.CUR = None
    return res, ctx.pending


def concretise_obs(ctx, obs):
    """Evaluate possibly-symbolic observations under the path's model."""
    from .values import concretise
    return [(t, concretise(ctx, v)) for t, v in obs]
