"""Depth-first exploration of all paths of a harness, sequentially or across processes."""
from __future__ import annotations

import hashlib
import multiprocessing as mp
import os
import time
import traceback

from . import core
from .core import Stats


class InstanceResult:
    def __init__(self, idx, params):
        self.idx = idx
        self.params = params
        self.stats = Stats()
        self.status_counts = {}
        self.reached = {}
        self.violations = []      # (label, assignment, detail)
        self.known_hits = []      # (fid, label, assignment, detail)
        self.problems = []        # inconclusive / unsupported / crash details
        self.samples = []         # (assignment, observations, notes) for trace validation / evidence
        self.exhausted = True
        self.wall = 0.0
        self.fp = {"proved": 0, "failed": 0, "shapes": [], "xcheck": [], "disagreements": []}

    def merge_path(self, res, keep_sample):
        self.status_counts[res.status] = self.status_counts.get(res.status, 0) + 1
        for k, v in res.reached.items():
            self.reached[k] = self.reached.get(k, 0) + v
        if res.violations and len(self.violations) < 8:
            self.violations.extend(res.violations)
        if res.known_hits:
            have = {h[0] for h in self.known_hits}
            for h in res.known_hits:
                if h[0] not in have or len(self.known_hits) < 4:
                    self.known_hits.append(h)
                    have.add(h[0])
        if res.status in ("inconclusive", "unsupported", "crash") and len(self.problems) < 5:
            self.problems.append((res.status, res.detail))
        if keep_sample and res.observations is not None and len(self.samples) < 6:
            self.samples.append((res.assignment, res.observations, res.notes))

    def merge(self, other):
        self.stats.add(other.stats)
        for k, v in other.status_counts.items():
            self.status_counts[k] = self.status_counts.get(k, 0) + v
        for k, v in other.reached.items():
            self.reached[k] = self.reached.get(k, 0) + v
        if len(self.violations) < 8:
            self.violations.extend(other.violations)
        have = {h[0] for h in self.known_hits}
        for h in other.known_hits:
            if h[0] not in have:
                self.known_hits.append(h)
                have.add(h[0])
        self.problems.extend(other.problems[: max(0, 5 - len(self.problems))])
        self.samples.extend(other.samples[: max(0, 6 - len(self.samples))])
        self.exhausted = self.exhausted and other.exhausted
        of = getattr(other, "fp", None)
        if of:
            self.fp["proved"] += of["proved"]
            self.fp["failed"] += of["failed"]
            self.fp["shapes"].extend(of["shapes"][: max(0, 12 - len(self.fp["shapes"]))])
            self.fp["xcheck"].extend(of["xcheck"])
            self.fp["disagreements"].extend(of["disagreements"])


def _want_sample(decisions_len, prefix, seed, rate):
    if rate <= 0:
        return False
    h = hashlib.blake2b(repr((prefix, seed)).encode(), digest_size=4).digest()
    return int.from_bytes(h, "big") / 2 ** 32 < rate


def explore_subtree(fn, params, prefix, model, max_paths, known_open, seed, sample_rate, idx=0,
                    stop_on_violation=True, deadline=None):
    """DFS below (prefix, model). Returns (InstanceResult partial, leftover [(prefix, model)])."""
    out = InstanceResult(idx, params)
    stack = [(list(prefix), model)]
    root_chunk = not prefix
    n = 0
    while stack:
        if n >= max_paths or (deadline is not None and time.time() > deadline):
            break
        pre, mdl = stack.pop()
        # sampled for trace validation: hashed sampling plus, deterministically, the first two completed paths of every instance
        keep = _want_sample(0, tuple(pre), seed, sample_rate) or (root_chunk and len(out.samples) < 2)
        try:
            res, pending = core.run_path(fn, params, pre, mdl, out.stats, known_open, keep_obs=keep, seed=seed)
        except core.Inconclusive as e:   # raised outside a path body (should not happen)
            res = core.PathResult()
            res.status = "inconclusive"
            res.detail = str(e)
            pending = []
        except Exception as e:  # harness or engine crashed: never a verdict
            res = core.PathResult()
            res.status = "crash"
            res.detail = "".join(traceback.format_exception(type(e), e, e.__traceback__))[-3000:]
            pending = []
            out.stats.paths += 1
        n += 1
        out.merge_path(res, keep)
        # deepest alternative first
        stack.extend(pending)
        if res.status == "violation" and stop_on_violation and len(out.violations) >= 3:
            break
    return out, stack


# ------------------------------------------------------------------------- parallel driver

_FN = None
_INSTANCES = None
_OPTS = None


def _fp_snapshot():
    from . import fplemma
    st = fplemma.STATS
    return (st["proved"], st["failed"], len(st["shapes"]), len(st.get("xcheck", [])), len(st.get("disagreements", [])))


def _fp_delta(before):
    from . import fplemma
    st = fplemma.STATS
    return {"proved": st["proved"] - before[0], "failed": st["failed"] - before[1], "shapes": st["shapes"][before[2]:],
            "xcheck": st.get("xcheck", [])[before[3]:], "disagreements": st.get("disagreements", [])[before[4]:]}


def _worker(task):
    idx, prefix, model = task
    params = _INSTANCES[idx]
    snap = _fp_snapshot()
    try:
        part, left = explore_subtree(_FN, params, prefix, model, _OPTS["chunk"], _OPTS["known_open"],
                                     _OPTS["seed"], _OPTS["sample_rate"], idx=idx, deadline=_OPTS["deadline"])
    except BaseException as e:  # noqa: BLE001
        part = InstanceResult(idx, params)
        part.status_counts["crash"] = 1
        part.problems.append(("crash", "".join(traceback.format_exception(type(e), e, e.__traceback__))[-3000:]))
        left = []
    part.fp = _fp_delta(snap)
    return idx, part, left


def run_instances(fn, instances, jobs=None, chunk=64, known_open=(), seed=0, sample_rate=0.0,
                  max_paths_total=None, wall_budget=None, progress=None):
    """Explore every instance exhaustively. Returns list[InstanceResult]."""
    global _FN, _INSTANCES, _OPTS
    jobs = jobs or min(16, os.cpu_count() or 1)
    t0 = time.time()
    deadline = (t0 + wall_budget) if wall_budget else None
    _FN, _INSTANCES = fn, instances
    _OPTS = dict(chunk=chunk, known_open=tuple(known_open), seed=seed, sample_rate=sample_rate, deadline=deadline)
    results = [InstanceResult(i, p) for i, p in enumerate(instances)]
    queue = [(i, [], None) for i in range(len(instances))]
    total_paths = 0
    unfinished = set()

    def absorb(idx, part, left):
        nonlocal total_paths
        results[idx].merge(part)
        total_paths += part.stats.paths
        if len(results[idx].violations) >= 3:
            if left:
                unfinished.add(idx)   # enough counterexamples for this instance: drop the rest
            return
        queue.extend((idx, p, m) for p, m in left)

    if jobs == 1:
        while queue:
            task = queue.pop()
            if len(results[task[0]].violations) >= 3:
                unfinished.add(task[0])
                continue
            absorb(*_worker(task))
            if _over(total_paths, max_paths_total, deadline):
                break
    else:
        ctx = mp.get_context("fork")
        with ctx.Pool(jobs, maxtasksperchild=50) as pool:
            inflight = []
            while queue or inflight:
                while queue and len(inflight) < jobs * 3:
                    task = queue.pop()
                    if len(results[task[0]].violations) >= 3:
                        unfinished.add(task[0])
                        continue
                    inflight.append((pool.apply_async(_worker, (task,)), task[0]))
                done = [r for r in inflight if r[0].ready()]
                if not done:
                    time.sleep(0.002)
                    continue
                for r in done:
                    inflight.remove(r)
                    absorb(*r[0].get())
                if progress:
                    progress(total_paths, len(queue) + len(inflight))
                if _over(total_paths, max_paths_total, deadline):
                    unfinished.update(i for _, i in inflight)
                    pool.terminate()
                    break
    unfinished.update(idx for idx, _, _ in queue)
    for i in unfinished:
        results[i].exhausted = False
    for r in results:
        r.wall = time.time() - t0
    return results


def _over(total_paths, max_paths_total, deadline):
    if max_paths_total is not None and total_paths >= max_paths_total:
        return True
    return deadline is not None and time.time() > deadline


