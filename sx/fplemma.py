"""Shape lemmas: replace an FP-rooted integer term by an integer closed form, once proved by z3.

raw = to_sbv(...fp ops over to_fp(L)...) with a single integer leaf L in [lo, hi].
Candidates: a*v + c, and round-half-even(v / D) + c.  Each candidate is first fitted on
sample points (concrete evaluation of the term) and then *proved* for every v in the
leaf's interval by a one-shot z3 query (Float64 semantics).  If no candidate is proved the
FP term is kept (and later queries that involve it are ordinary FP queries).
"""
import time

import z3

from . import core
from .core import W

_LEAF_RANGE: dict[int, tuple] = {}     # ast id of BV leaf -> (lo, hi, ast)
_CACHE: dict[str, tuple] = {}          # shape key -> ("none",) | ("affine", a, c) | ("rdiv", D, c)
STATS = {"proved": 0, "failed": 0, "seconds": 0.0, "shapes": []}
LEMMA_TIMEOUT_MS = 90000
import os as _os
XCHECK = _os.environ.get("VERIF_XCHECK", "") == "1"   # thorough tier: re-discharge every proved lemma with cvc5


def note_leaf(e, lo, hi):
    _LEAF_RANGE[e.get_id()] = (lo, hi, e)
    if len(_LEAF_RANGE) > 50000:
        _LEAF_RANGE.clear()


def _leaves(raw):
    out = {}
    seen = set()
    stack = [raw]
    while stack:
        t = stack.pop()
        i = t.get_id()
        if i in seen:
            continue
        seen.add(i)
        if i in _LEAF_RANGE and z3.is_bv(t):
            out[i] = t
            continue
        stack.extend(t.children())
    return list(out.values())


def _eval_at(shape, v, val, nbits):
    r = z3.simplify(z3.substitute(shape, (v, z3.BitVecVal(val, nbits))))
    if z3.is_bv_value(r):
        return r.as_signed_long()
    return None


def _rdiv_he(x, D):
    """round-half-even(x / D) for python ints."""
    q, r = divmod(x, D)
    if 2 * r > D or (2 * r == D and q % 2 == 1):
        q += 1
    return q


def _rdiv_he_expr(v, D, nbits):
    Dv = z3.BitVecVal(D, nbits)
    q = z3.If(v >= 0, v / Dv, -((-v + (Dv - 1)) / Dv))
    r = v - q * Dv
    up = z3.Or(2 * r > Dv, z3.And(2 * r == Dv, z3.Extract(0, 0, q) == 1))
    return z3.If(up, q + 1, q)


def rewrite_or_keep(raw, rlo, rhi):
    """Returns an int / SymInt equal to the BV term raw (FP-rooted)."""
    from .values import SymInt, _mk
    folded = z3.simplify(raw)
    if z3.is_bv_value(folded):
        return folded.as_signed_long()
    leaves = _leaves(raw)
    if len(leaves) != 1:
        return _mk(raw, rlo, rhi)
    L = leaves[0]
    lo, hi, _ = _LEAF_RANGE[L.get_id()]
    nbits = L.size()
    v = z3.BitVec("lemma!v", nbits)
    shape = z3.substitute(raw, (L, v))
    key = f"{shape.sexpr()}|{lo}|{hi}"
    res = _CACHE.get(key)
    if res is None:
        res = _prove(shape, v, lo, hi, nbits)
        _CACHE[key] = res
    ow = raw.size()

    def lift(t):
        if nbits < ow:
            return z3.SignExt(ow - nbits, t)
        return t

    if res[0] == "affine":
        _, a, c = res
        return _mk(lift(L) * z3.BitVecVal(a, ow) + z3.BitVecVal(c, ow), min(a * lo + c, a * hi + c), max(a * lo + c, a * hi + c))
    if res[0] == "rdiv":
        _, D, c = res
        return _mk(_rdiv_he_expr(lift(L), D, ow) + z3.BitVecVal(c, ow), _rdiv_he(lo, D) + c, _rdiv_he(hi, D) + c)
    return _mk(raw, rlo, rhi)


def _prove(shape, v, lo, hi, nbits):
    pts = sorted({lo, lo + 1, (lo + hi) // 2, (lo + hi) // 2 + 1, hi - 1, hi} & set(range(lo, hi + 1)))
    vals = {p: _eval_at(shape, v, p, nbits) for p in pts}
    if any(x is None for x in vals.values()):
        return ("none",)
    ow = shape.size()

    def lift(t):
        return z3.SignExt(ow - nbits, t) if nbits < ow else t

    cands = []
    if len(pts) >= 2:
        a = vals[pts[1]] - vals[pts[0]]
        c = vals[pts[0]] - a * pts[0]
        if all(vals[p] == a * p + c for p in pts):
            cands.append((("affine", a, c), lift(v) * z3.BitVecVal(a, ow) + z3.BitVecVal(c, ow)))
    for D in (10, 20, 100, 2, 5):
        c = vals[pts[0]] - _rdiv_he(pts[0], D)
        if all(vals[p] == _rdiv_he(p, D) + c for p in pts):
            cands.append((("rdiv", D, c), _rdiv_he_expr(lift(v), D, ow) + z3.BitVecVal(c, ow)))
    for tag, cand in cands:
        t0 = time.perf_counter()
        s = z3.Solver()
        s.set("timeout", LEMMA_TIMEOUT_MS)
        s.add(v >= lo, v <= hi, shape != cand)
        r = s.check()
        dt = time.perf_counter() - t0
        STATS["seconds"] += dt
        if r == z3.unsat:
            entry = {"candidate": list(tag), "leaf_range": [lo, hi], "seconds": round(dt, 2)}
            if XCHECK:
                from .xcheck import cvc5_check
                xr, xs = cvc5_check([v >= lo, v <= hi, shape != cand], timeout_s=120)
                entry["cvc5"] = xr
                entry["cvc5_seconds"] = round(xs, 2)
                STATS.setdefault("xcheck", []).append(xr)
                if xr == "sat":
                    STATS.setdefault("disagreements", []).append(entry)
                    STATS["failed"] += 1
                    continue
            STATS["proved"] += 1
            STATS["shapes"].append(entry)
            return tag
        STATS["failed"] += 1
    return ("none",)
