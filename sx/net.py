"""Simulated network for the socket under test: patched asyncio.open_connection, fake writer,
stub reader (symbolic content) — with monitors for open/closed transports and writes."""
from __future__ import annotations

import asyncio

from .values import SymBytes, SymInt, to_symbytes


class StubReader:
    """asyncio.StreamReader contract over possibly symbolic bytes (readexactly only).

    readexactly(n): raises a set exception; returns exactly n bytes as soon as n are buffered;
    raises IncompleteReadError(partial, n) at EOF with fewer than n buffered.
    """

    def __init__(self, loop):
        self._loop = loop
        self._buf = []          # list of byte items
        self._eof = False
        self._exc = None
        self._waiter = None
        self.total_fed = 0

    def feed_data(self, data):
        if self._eof:
            raise AssertionError("feed_data after feed_eof (harness contract)")
        items = list(data)
        if not items:
            return
        self._buf.extend(items)
        self.total_fed += len(items)
        self._wake()

    def feed_eof(self):
        self._eof = True
        self._wake()

    def set_exception(self, exc):
        self._exc = exc
        w, self._waiter = self._waiter, None
        if w is not None and not w.cancelled():
            w.set_exception(exc)

    def exception(self):
        return self._exc

    def at_eof(self):
        return self._eof and not self._buf

    def buffered(self):
        return len(self._buf)

    def _wake(self):
        w, self._waiter = self._waiter, None
        if w is not None and not w.cancelled():
            w.set_result(None)

    async def _wait(self):
        if self._waiter is not None:
            raise RuntimeError("readexactly() called while another coroutine is already waiting for incoming data")
        self._waiter = self._loop.create_future()
        try:
            await self._waiter
        finally:
            self._waiter = None

    async def read(self, n=-1):
        """StreamReader.read contract: up to n bytes (all buffered when n < 0); b'' only at EOF."""
        if self._exc is not None:
            raise self._exc
        if n == 0:
            return b""
        if isinstance(n, SymInt):
            n = n.__index__()
        while not self._buf:
            if self._eof:
                return b""
            await self._wait()
            if self._exc is not None:
                raise self._exc
        k = len(self._buf) if n < 0 else min(n, len(self._buf))
        out, self._buf = self._buf[:k], self._buf[k:]
        return bytes(out) if all(isinstance(x, int) for x in out) else SymBytes(out)

    async def readexactly(self, n):
        if n < 0:
            raise ValueError("readexactly size can not be less than zero")
        if self._exc is not None:
            raise self._exc
        if n == 0:
            return b""
        while len(self._buf) < n:
            if self._eof:
                partial = SymBytes(self._buf)
                self._buf = []
                raise asyncio.IncompleteReadError(_as_bytes(partial), None)
            await self._wait()
            if self._exc is not None:
                raise self._exc
        if isinstance(n, SymInt):
            n = n.__index__()
        out, self._buf = self._buf[:n], self._buf[n:]
        if all(isinstance(x, int) for x in out):
            return bytes(out)
        return SymBytes(out)


def _as_bytes(sb):
    return sb.to_bytes() if sb.concrete() else sb


class FakeWriter:
    def __init__(self, conn):
        self.conn = conn

    def write(self, data):
        self.conn.net._on_write(self.conn, data)

    async def drain(self):
        await self.conn.net._on_drain(self.conn)

    def close(self):
        self.conn.client_close()

    async def wait_closed(self):
        lat = self.conn.net.close_latency
        if lat is not None:
            await asyncio.sleep(lat)          # the transport takes this long to report the connection closed
        exc = self.conn.wait_closed_exc
        if exc is not None:
            self.conn.wait_closed_exc = None
            raise exc

    def is_closing(self):
        # asyncio's transports report closing once close() was called *or* the transport was lost through a fatal error
        # (peer reset, failed send: _fatal_error -> _force_close sets _closing); a clean EOF from the peer leaves it open
        return self.conn.client_closed or self.conn.transport_lost

    def get_extra_info(self, name, default=None):
        return default


class Conn:
    """One TCP connection as seen by the simulated console."""

    def __init__(self, net, index, reader):
        self.net = net
        self.index = index
        self.reader = reader
        self.writer = FakeWriter(self)
        self.client_closed = False
        self.peer_closed = False      # console sent EOF / reset
        self.writes = []              # (time, data) per write() call
        self.drains = 0
        self.opened_at = net.loop.time()
        self.closed_at = None
        self.wait_closed_exc = None
        self.transport_lost = False   # fatal transport error seen (peer reset / failed send)
        self.lost_exc = None

    def client_close(self):
        if not self.client_closed:
            self.client_closed = True
            self.closed_at = self.net.loop.time()
            self.net.events.append(("close", self.index, self.closed_at))
            self.net.open_count -= 1
            if self.net.on_client_close:
                self.net.on_client_close(self)

    # console-side actions ---------------------------------------------------------
    def send(self, data):
        """Console sends bytes to the client."""
        if self.peer_closed:
            raise AssertionError("console sends after closing (harness contract)")
        self.reader.feed_data(data)

    def eof(self):
        if not self.peer_closed:
            self.peer_closed = True
            self.reader.feed_eof()

    def reset(self, exc=None):
        if self.client_closed and not self.peer_closed:
            # the client has closed already; the link now breaks under whatever is still waiting on the transport
            self.peer_closed = True
            self.transport_lost = True
            self.lost_exc = exc or ConnectionResetError("peer reset")
            return
        if not self.peer_closed:
            self.peer_closed = True
            self.transport_lost = True
            self.lost_exc = exc or ConnectionResetError("peer reset")
            self.reader.set_exception(self.lost_exc)

    def written(self):
        """All bytes the client wrote on this connection, concatenated."""
        out = []
        for _, d in self.writes:
            out.extend(list(d))
        return out


class FakeNet:
    """Patches asyncio.open_connection. Behaviour hooks (all optional):

    on_connect(net, attempt_no) -> ("refuse",) | ("refuse", exc) | ("accept", latency)
    on_accept(conn)             -> called right after the connection is handed to the client
    on_write(conn, data)        -> called on every write()
    on_drain(conn, n)           -> may raise OSError / return a delay to await (back-pressure)
    """

    def __init__(self, loop, stub_reader=False):
        self.loop = loop
        self.stub_reader = stub_reader
        self.conns = []
        self.attempts = []          # (time, outcome)
        self.events = []            # ("attempt"/"open"/"close", ...)
        self.open_count = 0
        self.max_open = 0
        self.on_connect = None
        self.on_accept = None
        self.on_write = None
        self.on_drain = None
        self.on_client_close = None
        self.reader_factory = None   # (loop, connection index) -> reader object
        self._saved = None
        self.max_conns = 64         # connections accepted before the console gives up on a client that keeps resetting them
        self.storm = False
        self.close_latency = None   # None: wait_closed() returns at once; a number: it takes that long
        self.frozen = False         # set by harnesses after shutdown: any activity is recorded as late
        self.late = []
        self.inflight_opens = []    # connections whose attempt predates the freeze but which opened after it

    def install(self):
        self._saved = asyncio.open_connection
        asyncio.open_connection = self.open_connection

    def uninstall(self):
        if self._saved is not None:
            asyncio.open_connection = self._saved
            self._saved = None

    def __enter__(self):
        self.install()
        return self

    def __exit__(self, *a):
        self.uninstall()

    def current(self):
        for c in reversed(self.conns):
            if not c.client_closed:
                return c
        return None

    async def open_connection(self, host=None, port=None, **kw):
        n = len(self.attempts)
        t = self.loop.time()
        self.events.append(("attempt", n, t))
        started_frozen = self.frozen
        if self.frozen:
            self.late.append(("attempt", t))
        act = self.on_connect(self, n) if self.on_connect else ("accept", 0)
        if len(self.conns) >= self.max_conns:
            # a reconnection storm (a client that resets every connection at once): the simulated console stops accepting, so
            # that the run ends and the harness's own obligations (recovered? probe delivered?) give the verdict
            self.storm = True
            act = ("refuse",)
        if act[0] == "refuse":
            self.attempts.append((t, "refuse"))
            raise (act[1] if len(act) > 1 else ConnectionRefusedError("refused"))
        self.attempts.append((t, "accept"))
        lat = act[1] if len(act) > 1 else 0
        if not _is_zero(lat):
            await asyncio.sleep(lat)
        if self.reader_factory is not None:
            reader = self.reader_factory(self.loop, len(self.conns))
        else:
            reader = StubReader(self.loop) if self.stub_reader else asyncio.StreamReader(loop=self.loop)
        conn = Conn(self, len(self.conns), reader)
        self.conns.append(conn)
        self.open_count += 1
        self.max_open = max(self.max_open, self.open_count)
        self.events.append(("open", conn.index, self.loop.time()))
        if self.frozen:
            if started_frozen:
                self.late.append(("open", self.loop.time()))
            else:
                # an attempt that was already in flight when the network was frozen completes now
                self.inflight_opens.append(conn)
        if self.on_accept:
            self.loop.call_soon(self.on_accept, conn)
        return reader, conn.writer

    def _on_write(self, conn, data):
        t = self.loop.time()
        conn.writes.append((t, data))
        if self.frozen:
            self.late.append(("write", t))
        if conn.client_closed:
            self.events.append(("write_after_close", conn.index, t))
        if self.on_write:
            self.on_write(conn, data)

    async def _on_drain(self, conn):
        conn.drains += 1
        if conn.transport_lost and not conn.client_closed:
            # StreamWriter.drain() re-raises the reader's exception / reports the lost connection
            raise conn.lost_exc or ConnectionResetError("Connection lost")
        if self.on_drain:
            r = self.on_drain(conn, conn.drains)
            if r is not None:
                if isinstance(r, BaseException):
                    conn.transport_lost = True          # a failed send is a fatal transport error
                    conn.lost_exc = r
                    raise r
                await asyncio.sleep(r)
                if conn.transport_lost:
                    # the connection was lost while this drain() was waiting for the transport to resume
                    raise conn.lost_exc or ConnectionResetError("Connection lost")


def _is_zero(x):
    # only the literal integer 0 means "no suspension at all"; a latency of 0.0 (concrete replay of a symbolic
    # latency) still yields once, exactly like asyncio.sleep(0) does for the symbolic value
    return isinstance(x, int) and not isinstance(x, bool) and x == 0


class SegmentedReader:
    """readexactly() over a concrete byte stream that arrives in segments whose cut offsets are
    symbolic integers: `available` is the offset delivered so far. One path = one class of cut
    positions relative to the read boundaries (every split point is covered without listing them)."""

    def __init__(self, loop, stream):
        self._loop = loop
        self._stream = bytes(stream)
        self._pos = 0
        self.available = 0        # int or SymInt
        self._eof = False
        self._waiter = None
        self._exc = None

    def deliver_up_to(self, offset):
        self.available = offset
        self._wake()

    def feed_eof(self):
        self._eof = True
        self._wake()

    def feed_data(self, data):
        raise AssertionError("SegmentedReader is fed by deliver_up_to()")

    def set_exception(self, exc):
        self._exc = exc
        self._wake()

    def _wake(self):
        w, self._waiter = self._waiter, None
        if w is not None and not w.cancelled():
            w.set_result(None)

    def buffered(self):
        return None

    def at_eof(self):
        """StreamReader.at_eof(): end of stream fed and nothing left buffered (forks when `available` is symbolic)."""
        return self._eof and not (self._pos < self.available)

    async def read(self, n=-1):
        """StreamReader.read contract over the symbolic delivery offset (the returned length is concretised by forking)."""
        if self._exc is not None:
            raise self._exc
        if n == 0:
            return b""
        if isinstance(n, SymInt):
            n = n.__index__()
        while not (self._pos < self.available):
            if self._eof:
                return b""
            self._waiter = self._loop.create_future()
            try:
                await self._waiter
            finally:
                self._waiter = None
            if self._exc is not None:
                raise self._exc
        have = self.available - self._pos
        if n >= 0 and (have >= n):
            k = n
        else:
            k = have.__index__() if isinstance(have, SymInt) else have
        out = self._stream[self._pos:self._pos + k]
        self._pos += k
        return out

    async def readexactly(self, n):
        if n < 0:
            raise ValueError("readexactly size can not be less than zero")
        if self._exc is not None:
            raise self._exc
        if n == 0:
            return b""
        if isinstance(n, SymInt):
            n = n.__index__()
        while not (self._pos + n <= self.available):      # forks when `available` is symbolic
            if self._eof:
                avail = self.available.__index__() if isinstance(self.available, SymInt) else self.available
                partial = self._stream[self._pos:avail]
                self._pos = avail
                raise asyncio.IncompleteReadError(partial, n)
            self._waiter = self._loop.create_future()
            try:
                await self._waiter
            finally:
                self._waiter = None
            if self._exc is not None:
                raise self._exc
        out = self._stream[self._pos:self._pos + n]
        self._pos += n
        return out
