"""Process-wide state of the package under test, reset before every path.

Every path of an exploration re-runs the harness from scratch with fresh client objects, but the
package also has process-wide objects (the registry singletons, their header factory and checksum
calculator, class attributes). State that the code under test leaves in those would leak from one
path into the next: a path would then start from a state no fresh process has, its counterexample
would not replay, and (worse) a state-dependent defect could be masked. snapshot() records the
attribute dictionaries of every package object reachable from the package's module globals and the
plain data attributes of the package's classes; restore() puts them back (in place) and reports what
had been changed. Replays run in a fresh process and therefore start from the same state.
"""
from __future__ import annotations

import enum
import sys
import types

_SNAP = {"objs": [], "containers": [], "classes": []}
CHANGED: set = set()      # names of attributes found changed at restore time (evidence: process-wide state the code mutates)

_SKIP_TYPES = (types.ModuleType, types.FunctionType, types.BuiltinFunctionType, types.MethodType, type, property, staticmethod, classmethod)


def _is_pkg_obj(x, prefix):
    t = type(x)
    return getattr(t, "__module__", "").startswith(prefix) and not isinstance(x, (type, enum.Enum))


def snapshot(prefix="pyairtouch"):
    objs, containers, classes = [], [], []
    seen = set()

    def walk(x, depth):
        if id(x) in seen or depth > 8:
            return
        if isinstance(x, _SKIP_TYPES) or isinstance(x, enum.Enum):
            return
        if _is_pkg_obj(x, prefix):
            seen.add(id(x))
            d = getattr(x, "__dict__", None)
            if isinstance(d, dict):
                objs.append((x, dict(d)))
                for v in list(d.values()):
                    walk(v, depth + 1)
        elif isinstance(x, dict):
            seen.add(id(x))
            containers.append((x, dict(x)))
            for v in list(x.values()):
                walk(v, depth + 1)
        elif isinstance(x, bytearray):
            seen.add(id(x))
            containers.append((x, bytes(x)))
        elif isinstance(x, (list, set)):
            seen.add(id(x))
            containers.append((x, type(x)(x) if type(x) in (list, set) else list(x)))
            if len(x) <= 64:
                for v in list(x):
                    walk(v, depth + 1)
        elif isinstance(x, tuple) and len(x) <= 64:
            for v in x:
                walk(v, depth + 1)

    for name, mod in sorted(sys.modules.items()):
        if mod is None or not (name == prefix or name.startswith(prefix + ".")):
            continue
        for gname, val in list(vars(mod).items()):
            if gname.startswith("__"):
                continue
            if isinstance(val, type):
                if getattr(val, "__module__", "") == name and not issubclass(val, enum.Enum):
                    data = {}
                    for an, av in list(vars(val).items()):
                        if an.startswith("__") or isinstance(av, _SKIP_TYPES) or callable(av) or hasattr(av, "__get__"):
                            continue
                        data[an] = av
                        walk(av, 1)
                    classes.append((val, data))
                continue
            walk(val, 0)
    _SNAP["objs"], _SNAP["containers"], _SNAP["classes"] = objs, containers, classes


def _same(a, b):
    if a is b:
        return True
    try:
        return type(a) is type(b) and isinstance(a, (int, float, str, bytes, bool, type(None))) and a == b
    except Exception:  # noqa: BLE001
        return False


def restore():
    """Put every recorded object back to its recorded attribute values. Returns the number of objects changed."""
    n = 0
    for obj, d in _SNAP["objs"]:
        cur = obj.__dict__
        if len(cur) != len(d) or any(k not in cur or not _same(cur[k], v) for k, v in d.items()):
            for k in set(cur) | set(d):
                if k not in d or k not in cur or not _same(cur.get(k), d.get(k)):
                    CHANGED.add(f"{type(obj).__module__}.{type(obj).__qualname__}.{k}")
            cur.clear()
            cur.update(d)
            n += 1
    for c, copy in _SNAP["containers"]:
        try:
            if isinstance(c, dict):
                if len(c) != len(copy) or any(k not in c or not _same(c[k], v) for k, v in copy.items()):
                    dict.clear(c)
                    dict.update(c, copy)
                    n += 1
            elif isinstance(c, bytearray):
                if bytes(c) != copy:
                    c[:] = copy
                    CHANGED.add("bytearray buffer (in place)")
                    n += 1
            elif isinstance(c, list):
                if len(c) != len(copy) or any(not _same(a, b) for a, b in zip(c, copy)):
                    c[:] = copy
                    n += 1
            elif isinstance(c, set):
                if c != copy:
                    c.clear()
                    c.update(copy)
                    n += 1
        except Exception:  # noqa: BLE001
            pass
    for cls, data in _SNAP["classes"]:
        cur = vars(cls)
        for an, av in data.items():
            if an not in cur or not _same(cur[an], av):
                CHANGED.add(f"{cls.__module__}.{cls.__qualname__}.{an} (class attribute)")
                try:
                    setattr(cls, an, av)
                    n += 1
                except Exception:  # noqa: BLE001
                    pass
        for an in [a for a in cur if a not in data and not a.startswith("__")]:
            av = cur[an]
            if isinstance(av, _SKIP_TYPES) or callable(av) or hasattr(av, "__get__"):
                continue
            CHANGED.add(f"{cls.__module__}.{cls.__qualname__}.{an} (new class attribute)")
            try:
                delattr(cls, an)
                n += 1
            except Exception:  # noqa: BLE001
                pass
    return n
