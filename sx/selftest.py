"""Differential self-test of shims and proxies, run at the start of every check.

(a) struct model vs struct on every format used by the repo, random values
(b) UTF-8 DFA vs CPython's codec
(c) enum lookup wrapper vs Enum for every int-valued Enum of the repo
(d) the repo's own test vectors (harvested from the pytest parametrize marks of /repo/tests)
    pushed through the real decoder/encoder plainly and as constant-valued proxies under shims
(e) float proxy operations vs CPython floats on the conversions the repo uses
"""
from __future__ import annotations

import dataclasses
import enum
import importlib
import os
import random
import struct as _struct
import sys

import z3

from . import core, shims, utf8
from .values import EnumProxy, SymBool, SymBytes, SymFloat, SymInt, SymReal, Utf8Str, _bv, concretise


def const_int(v):
    return SymInt(_bv(v), v, v)


def const_bytes(b):
    return SymBytes([const_int(x) for x in b])


def deep_concrete(ctx, obj):
    """Real-valued copy of an object graph that may contain proxies."""
    if isinstance(obj, (SymInt, SymBool, SymReal, SymFloat)):
        return concretise(ctx, obj)
    if isinstance(obj, SymBytes):
        return bytes(deep_concrete(ctx, x) for x in obj.items)
    if isinstance(obj, Utf8Str):
        return bytes(deep_concrete(ctx, x) for x in obj.items).decode("utf-8")
    if isinstance(obj, EnumProxy):
        v = deep_concrete(ctx, obj._v)
        for m in obj._cls:
            if m.value == v:
                return m
        raise AssertionError("EnumProxy without member")
    if isinstance(obj, shims.SxTimedelta) and obj._sym_seconds is not None:
        import datetime
        return datetime.timedelta(seconds=deep_concrete(ctx, obj._sym_seconds))
    if isinstance(obj, shims.SxTime):
        import datetime
        return datetime.time(deep_concrete(ctx, obj.hour), deep_concrete(ctx, obj.minute))
    if dataclasses.is_dataclass(obj) and not isinstance(obj, type):
        kw = {f.name: deep_concrete(ctx, getattr(obj, f.name)) for f in dataclasses.fields(obj)}
        return type(obj)(**kw)
    if isinstance(obj, dict):
        return {deep_concrete(ctx, k): deep_concrete(ctx, v) for k, v in obj.items()}
    if isinstance(obj, (list, tuple)):
        return type(obj)(deep_concrete(ctx, x) for x in obj)
    if isinstance(obj, (set, frozenset)):
        return type(obj)(deep_concrete(ctx, x) for x in obj)
    return obj


def _repo_struct_formats():
    fmts = set()
    for mod in shims.repo_modules():
        for v in vars(mod).values():
            if isinstance(v, _struct.Struct):
                fmts.add(v.format)
            elif isinstance(v, shims.SxStruct):
                fmts.add(v.format)
    return sorted(fmts)


def test_struct(rnd):
    n = bad = 0
    for fmt in _repo_struct_formats():
        real = _struct.Struct(fmt)
        model = shims.SxStruct(fmt)
        for _ in range(25):
            vals = []
            for kind, sz in model.fields:
                if kind == "x":
                    continue
                if kind == "s":
                    vals.append(bytes(rnd.randrange(256) for _ in range(rnd.randrange(0, sz + 3))))
                else:
                    vals.append(rnd.randrange(1 << (8 * sz)))
            n += 1
            a = real.pack(*vals)
            b = model.pack(*vals)
            if bytes(b.items) != a:
                bad += 1
            ua = real.unpack_from(a + b"\x07")
            ub = model.unpack_from(SymBytes(a + b"\x07"))
            ub = tuple(bytes(x.items) if isinstance(x, SymBytes) else x for x in ub)
            if ua != ub:
                bad += 1
        # out-of-range must raise struct.error in both
        ints = [i for i, (k, _) in enumerate(f for f in model.fields if f[0] != "x") if k != "s"]
        if ints:
            vals = [b"" if k == "s" else 0 for k, _ in model.fields if k != "x"]
            vals[ints[0]] = 1 << 40
            n += 1
            try:
                real.pack(*vals)
                ra = False
            except _struct.error:
                ra = True
            try:
                model.pack(*vals)
                rb = False
            except _struct.error:
                rb = True
            if ra != rb:
                bad += 1
    return n, bad


def test_enums():
    n = bad = 0
    ctx = core.SymCtx()
    core.CUR = ctx
    try:
        seen = set()
        for mod in shims.repo_modules():
            for v in vars(mod).values():
                if isinstance(v, type) and issubclass(v, enum.Enum) and v not in seen and v.__module__.startswith("pyairtouch"):
                    seen.add(v)
                    if not all(isinstance(m.value, int) for m in v):
                        continue
                    for x in list(range(-1, 20)) + [0xFE, 0xFF, 0x100]:
                        n += 1
                        try:
                            a = shims._ORIG_ENUM_CALL(v, x)
                        except ValueError:
                            a = ValueError
                        try:
                            b = shims._enum_call(v, const_int(x))
                            if isinstance(b, EnumProxy):
                                b = b._concrete()
                        except ValueError:
                            b = ValueError
                        if a is not b:
                            bad += 1
    finally:
        core.CUR = None
    return n, bad


def harvest_vectors(repo_root="/repo"):
    """(module name, message, buffer, extra args) from the parametrize marks of the repo's tests."""
    tests_root = os.path.join(repo_root, "tests")
    out = []
    if not os.path.isdir(tests_root):
        return out
    try:
        import pytest  # noqa: F401
    except Exception:
        return out
    sys.path.insert(0, repo_root)
    try:
        for gen in ("at4", "at5"):
            d = os.path.join(tests_root, gen, "comms")
            if not os.path.isdir(d):
                continue
            for fn in sorted(os.listdir(d)):
                if not fn.startswith("test_x") or not fn.endswith(".py"):
                    continue
                name = f"tests.{gen}.comms.{fn[:-3]}"
                try:
                    mod = importlib.import_module(name)
                except Exception:
                    continue
                for obj in vars(mod).values():
                    marks = getattr(obj, "pytestmark", None)
                    if not marks:
                        continue
                    for mk in marks:
                        if mk.name != "parametrize":
                            continue
                        argnames = mk.kwargs.get("argnames", mk.args[0] if mk.args else None)
                        argvalues = mk.kwargs.get("argvalues", mk.args[1] if len(mk.args) > 1 else None)
                        if isinstance(argnames, str):
                            argnames = [a.strip() for a in argnames.split(",")]
                        if not argnames or "message" not in argnames or "message_buffer" not in argnames:
                            continue
                        for tup in argvalues:
                            vals = getattr(tup, "values", tup)
                            d_ = dict(zip(argnames, vals))
                            out.append((gen, fn[5:-3], d_["message"], d_["message_buffer"], d_))
    finally:
        if sys.path[0] == repo_root:
            sys.path.pop(0)
    return out


def _wrap(gen, stem, message):
    """Wrap a sub-message into its 0x1F / 0xC0 container so the registry can route it."""
    if stem.startswith("x1FFF"):
        m = importlib.import_module(f"pyairtouch.{gen}.comms.x1F_ext")
        return m.ExtendedMessage(message)
    if gen == "at5" and stem.startswith("xC0") and len(stem) > 3 and stem[3:5].isdigit():
        m = importlib.import_module("pyairtouch.at5.comms.xC0_ctrl_status")
        return m.ControlStatusMessage(message)
    return message


_REENC = {}


def test_floats(rnd):
    n = bad = 0
    ctx = core.SymCtx()
    core.CUR = ctx
    try:
        from .values import sx_int, sx_round
        for _ in range(300):
            raw = rnd.randrange(0, 2048)
            n += 1
            a = (raw - 500) / 10.0
            b = (const_int(raw) - 500) / 10.0
            if concretise(ctx, b) != a:
                bad += 1
            if concretise(ctx, sx_int(b * 10.0 + 500)) != int(a * 10.0 + 500):
                bad += 1
            j = rnd.randrange(-400, 1400)
            t = j / 20.0
            ts = const_int(j) / 20.0
            if concretise(ctx, sx_round(ts)) != round(t):
                bad += 1
    finally:
        core.CUR = None
    return n, bad


def test_round1():
    """The contract model of round(x, 1) admits CPython's result for every grid point used."""
    n = bad = 0
    for j in range(-400, 1401):
        n += 1
        r = round(j / 20.0, 1)
        k = round(r * 10)
        if abs(2 * k - j) > 1 or (k / 10) != r:
            bad += 1
    return n, bad


def test_strip(rnd):
    """Utf8Str.strip/lstrip/rstrip on constant-valued proxies against str (all whitespace characters str.isspace knows)."""
    ws = [chr(c) for c in range(0x3100) if chr(c).isspace()]
    others = ["a", "Z", "0", "-", "\u00e9", "\u4e2d", "\U0001f600", "\u2007x", "\u00a1", "\u1681", "\u200b", "\u3001"]
    n = bad = 0
    ctx = core.SymCtx()
    core.CUR = ctx
    try:
        for _ in range(150):
            parts = [rnd.choice(ws) for _ in range(rnd.randrange(0, 3))] + [rnd.choice(others + ws) for _ in range(rnd.randrange(0, 4))] \
                + [rnd.choice(ws) for _ in range(rnd.randrange(0, 3))]
            t = "".join(parts)
            sym = Utf8Str([const_int(b) for b in t.encode("utf-8")])
            for meth in ("strip", "lstrip", "rstrip"):
                n += 1
                got = deep_concrete(ctx, getattr(sym, meth)())
                if got != getattr(t, meth)():
                    bad += 1
    finally:
        core.CUR = None
    return n, bad


def test_bytes_strip(rnd):
    """SymBytes.rstrip/lstrip(chars) on constant-valued proxies against bytes."""
    n = bad = 0
    ctx = core.SymCtx()
    core.CUR = ctx
    try:
        for _ in range(150):
            alphabet = [0, 0, 0x20, 0x41, 0x42, 0xFF]
            raw = bytes(rnd.choice(alphabet) for _ in range(rnd.randrange(0, 9)))
            chars = bytes(rnd.sample([0, 0x20, 0x41], rnd.randrange(1, 3)))
            sym = const_bytes(raw)
            for meth in ("rstrip", "lstrip"):
                n += 1
                if deep_concrete(ctx, getattr(sym, meth)(chars)) != getattr(raw, meth)(chars):
                    bad += 1
    finally:
        core.CUR = None
    return n, bad


def run_all(seed=0, repo_root="/repo"):
    """Returns dict of results; key 'ok' False if any mismatch. Shims must not be installed."""
    rnd = random.Random(seed)
    res = {}
    shims.patch_enum()
    try:
        # importing the repo modules is the caller's job; struct formats come from them
        res["struct"] = test_struct(rnd)
        res["enum"] = test_enums()
    finally:
        shims.unpatch_enum()
    res["utf8"] = utf8.selftest(samples=200, seed=seed)
    res["round1"] = test_round1()
    res["strip"] = test_strip(rnd)
    res["bytes_strip"] = test_bytes_strip(rnd)
    vectors = harvest_vectors(repo_root)
    # plain re-encodes for step (d)
    _REENC.clear()
    n, bad, details = _vectors_with_reencode(vectors)
    res["vectors"] = (n, bad)
    res["vector_details"] = details
    shims.patch_enum()
    try:
        res["float"] = test_floats(rnd)
    finally:
        shims.unpatch_enum()
    res["ok"] = all(v[1] == 0 for k, v in res.items() if isinstance(v, tuple))
    return res


def _vectors_with_reencode(vectors):
    # compute plain decode + plain re-encode first
    pl = []
    for gen, stem, message, buf, extra in vectors:
        reg = importlib.import_module(f"pyairtouch.{gen}.comms.registry").INSTANCE
        hdrmod = importlib.import_module(f"pyairtouch.{gen}.comms.hdr")
        Hdr = hdrmod.At4Header if gen == "at4" else hdrmod.At5Header
        wrapped = _wrap(gen, stem, message)
        try:
            enc = reg.get_encoder(wrapped.message_id)
            hdr = Hdr(0xB0, 0x80, 1, wrapped.message_id, enc.size(wrapped))
            wire = bytes(enc.encode(hdr, wrapped))
            dec = reg.get_decoder(wrapped.message_id).decode(wire, hdr)
            _REENC[(gen, id(dec.message))] = bytes(enc.encode(hdr, dec.message))
            pl.append((gen, stem, wrapped, hdr, wire, dec.message, bytes(dec.remaining)))
        except Exception:
            continue
    n = bad = 0
    details = []
    shims.install()
    ctx = core.SymCtx()
    core.CUR = ctx
    try:
        for gen, stem, wrapped, hdr, wire, pmsg, prem in pl:
            reg = importlib.import_module(f"pyairtouch.{gen}.comms.registry").INSTANCE
            n += 1
            try:
                enc = reg.get_encoder(wrapped.message_id)
                w2 = enc.encode(hdr, wrapped)
                if deep_concrete(ctx, SymBytes(w2)) != wire:
                    bad += 1
                    details.append(f"{gen}/{stem}: shimmed encode differs")
                    continue
                d2 = reg.get_decoder(wrapped.message_id).decode(const_bytes(wire), hdr)
                m2 = deep_concrete(ctx, d2.message)
                if m2 != pmsg or deep_concrete(ctx, SymBytes(d2.remaining)) != prem:
                    bad += 1
                    details.append(f"{gen}/{stem}: shimmed decode differs: {m2!r} vs {pmsg!r}")
                    continue
                w3 = enc.encode(hdr, d2.message)
                if deep_concrete(ctx, SymBytes(w3)) != _REENC[(gen, id(pmsg))]:
                    bad += 1
                    details.append(f"{gen}/{stem}: re-encode of proxy-valued message differs")
            except BaseException as e:  # noqa: BLE001
                bad += 1
                details.append(f"{gen}/{stem}: {type(e).__name__}: {e}")
    finally:
        core.CUR = None
        shims.uninstall()
    return n, bad, details[:6]
