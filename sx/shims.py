"""Shims that let the unmodified pyairtouch functions run on proxy values.

Installed by module-namespace injection (module globals shadow builtins) on every
pyairtouch.* module, plus a wrapper of enum.EnumType.__call__. Nothing in /repo is edited.
"""
from __future__ import annotations

import datetime as _datetime
import enum
import re
import struct as _struct
import sys
import types

import z3

from . import core
from .core import W, EngineUnsupported
from .values import (ConstStr, EnumProxy, SymBool, SymBytes, SymFloat, SymInt, SymReal, Utf8Str, _bv, _check_byte,
                     _e, _mk, sx_abs, sx_divmod, sx_float, sx_int, sx_max, sx_min, sx_round, sym_or)

# ----------------------------------------------------------------------------- struct model

_SIZES = {"B": 1, "H": 2, "I": 4, "b": 1, "h": 2, "x": 1}


class SxStruct:
    """Pure-Python model of struct.Struct for the subset B H I x Ns with ! > < = prefixes."""

    def __init__(self, fmt):
        if isinstance(fmt, bytes):
            fmt = fmt.decode()
        self.format = fmt
        f = fmt
        self.order = "big"
        if f and f[0] in "!><=@":
            if f[0] == "<":
                self.order = "little"
            elif f[0] in "=@":
                self.order = sys.byteorder
            f = f[1:]
        self.fields = []
        pos = 0
        for m in re.finditer(r"\s*(\d*)([A-Za-z?])", f):
            if m.start() != pos:
                raise EngineUnsupported(f"struct format {fmt!r}")
            pos = m.end()
            cnt, ch = m.group(1), m.group(2)
            n = int(cnt) if cnt else 1
            if ch == "s":
                self.fields.append(("s", n))
            elif ch in _SIZES and ch not in "bh":
                for _ in range(n):
                    self.fields.append((ch, _SIZES[ch]))
            else:
                raise EngineUnsupported(f"struct format character {ch!r} in {fmt!r}")
        if pos != len(f):
            raise EngineUnsupported(f"struct format {fmt!r}")
        self.size = sum(sz for _, sz in self.fields)
        if self.size != _struct.calcsize(fmt):
            raise EngineUnsupported(f"struct model size mismatch for {fmt!r}")

    def _pack_list(self, vals):
        out = []
        vals = list(vals)
        nargs = sum(1 for k, _ in self.fields if k != "x")
        if len(vals) != nargs:
            raise _struct.error(f"pack expected {nargs} items for packing (got {len(vals)})")
        for kind, sz in self.fields:
            if kind == "x":
                out.extend([0] * sz)
                continue
            v = vals.pop(0)
            if kind == "s":
                if isinstance(v, (Utf8Str, str)):
                    raise _struct.error("argument for 's' must be a bytes object")
                if not isinstance(v, (bytes, bytearray, SymBytes)):
                    raise _struct.error("argument for 's' must be a bytes object")
                b = list(v)[:sz]
                b += [0] * (sz - len(b))
                out.extend(b)
                continue
            if isinstance(v, SymBool):
                v = v._as_int()
            if isinstance(v, EnumProxy) or isinstance(v, (SymFloat, float)) or not isinstance(v, (int, SymInt)):
                raise _struct.error("required argument is not an integer")
            top = 1 << (8 * sz)
            if isinstance(v, SymInt):
                if not ((v >= 0) & (v < top)):
                    raise _struct.error("argument out of range")
                bs = [_mk(z3.ZeroExt(W - 8, z3.Extract(8 * i + 7, 8 * i, v.e)), 0, 255) for i in range(sz)]
            else:
                if not 0 <= v < top:
                    raise _struct.error("argument out of range")
                bs = [(v >> (8 * i)) & 0xFF for i in range(sz)]
            if self.order == "big":
                bs.reverse()
            out.extend(bs)
        return out

    def pack(self, *vals):
        return SymBytes(self._pack_list(vals))

    def pack_into(self, buffer, offset, *vals):
        data = self._pack_list(vals)
        if isinstance(offset, SymInt):
            offset = offset.__index__()
        if offset < 0:
            offset += len(buffer)
        if offset < 0 or offset + len(data) > len(buffer):
            raise _struct.error("pack_into requires a buffer of at least %d bytes" % (offset + len(data)))
        if isinstance(buffer, SymBytes):
            buffer.items[offset:offset + len(data)] = data
        else:
            for i, d in enumerate(data):
                buffer[offset + i] = d  # concrete bytearray; symbolic d concretises via __index__

    def unpack_from(self, buffer, offset=0):
        if isinstance(offset, SymInt):
            offset = offset.__index__()
        if not isinstance(buffer, (bytes, bytearray, SymBytes)):
            raise TypeError("a bytes-like object is required")
        if offset < 0:
            offset += len(buffer)
        if offset < 0 or len(buffer) - offset < self.size:
            raise _struct.error("unpack_from requires a buffer of at least %d bytes" % self.size)
        res = []
        p = offset
        for kind, sz in self.fields:
            chunk = [buffer[p + i] for i in range(sz)]
            p += sz
            if kind == "x":
                continue
            if kind == "s":
                res.append(SymBytes(chunk))
                continue
            if self.order == "little":
                chunk = chunk[::-1]
            acc = 0
            for c in chunk:
                acc = (acc << 8) | c
            res.append(acc)
        return tuple(res)

    def unpack(self, buffer):
        if len(buffer) != self.size:
            raise _struct.error("unpack requires a buffer of %d bytes" % self.size)
        return self.unpack_from(buffer, 0)

    def __repr__(self):
        return f"SxStruct({self.format!r})"


class _StructModule:
    """Stand-in for the struct module inside repo modules."""
    error = _struct.error
    Struct = SxStruct

    @staticmethod
    def calcsize(fmt):
        return _struct.calcsize(fmt)

    @staticmethod
    def pack(fmt, *vals):
        return SxStruct(fmt).pack(*vals)

    @staticmethod
    def pack_into(fmt, buffer, offset, *vals):
        return SxStruct(fmt).pack_into(buffer, offset, *vals)

    @staticmethod
    def unpack(fmt, buffer):
        return SxStruct(fmt).unpack(buffer)

    @staticmethod
    def unpack_from(fmt, buffer, offset=0):
        return SxStruct(fmt).unpack_from(buffer, offset)


# ----------------------------------------------------------------------------- bytes / bytearray

class _BytesMeta(type):
    def __instancecheck__(cls, obj):
        return isinstance(obj, cls._real) or isinstance(obj, SymBytes)

    def __subclasscheck__(cls, sub):
        return issubclass(sub, cls._real) or sub is SymBytes

    def __or__(cls, other):
        return cls._real | (other._real if isinstance(other, _BytesMeta) else other)

    def __ror__(cls, other):
        return other | cls._real


def _make_bytes_class(real, mutable):
    class _Sx(metaclass=_BytesMeta):
        _real = real

        def __new__(cls, *args, **kw):
            if not args and not kw:
                return SymBytes() if mutable else real()
            a0 = args[0] if args else None
            if isinstance(a0, (Utf8Str,)):
                return a0.encode(*(args[1:]), **kw)
            if isinstance(a0, str):
                return SymBytes(real(*args, **kw)) if mutable else real(*args, **kw)
            if isinstance(a0, SymInt):
                a0 = a0.__index__()
            if isinstance(a0, int):
                return SymBytes([0] * a0) if mutable else real(a0)
            if isinstance(a0, SymBytes):
                return SymBytes(a0.items)
            if isinstance(a0, (bytes, bytearray, memoryview)):
                return SymBytes(a0) if mutable else real(a0)
            items = list(a0)
            if mutable or any(not isinstance(x, int) or isinstance(x, bool) for x in items):
                return SymBytes([_check_byte(x) for x in items])
            return real(items)

        @staticmethod
        def fromhex(s):
            return real.fromhex(s)

    _Sx.__name__ = real.__name__
    _Sx.__qualname__ = real.__qualname__
    return _Sx


SxBytes = _make_bytes_class(bytes, mutable=False)
SxBytearray = _make_bytes_class(bytearray, mutable=True)


# ----------------------------------------------------------------------------- misc builtins

def sx_len(x):
    return len(x)


def sx_range(*args):
    conv = [a.__index__() if isinstance(a, SymInt) else a for a in args]
    return range(*conv)


def sx_bool(x=False):
    if isinstance(x, (SymBool,)):
        return x
    if isinstance(x, SymInt):
        return x != 0
    return bool(x)


class _IntMeta(type):
    def __instancecheck__(cls, obj):
        return isinstance(obj, (int, SymInt))

    def __or__(cls, other):
        return int | other

    def __ror__(cls, other):
        return other | int


class SxInt(metaclass=_IntMeta):
    def __new__(cls, x=0, base=None):
        return sx_int(x, base)


class _FloatMeta(type):
    def __instancecheck__(cls, obj):
        return isinstance(obj, (float, SymFloat))

    def __or__(cls, other):
        return float | other

    def __ror__(cls, other):
        return other | float


class SxFloat(metaclass=_FloatMeta):
    def __new__(cls, x=0.0):
        return sx_float(x)


class _StrMeta(type):
    def __instancecheck__(cls, obj):
        return isinstance(obj, (str, Utf8Str))

    def __or__(cls, other):
        return str | other

    def __ror__(cls, other):
        return other | str


class SxStr(metaclass=_StrMeta):
    def __new__(cls, *a, **k):
        if a and isinstance(a[0], Utf8Str):
            return a[0]
        if a and isinstance(a[0], SymBytes) and len(a) > 1:
            return a[0].decode(*a[1:], **k)
        return str(*a, **k)


# ----------------------------------------------------------------------------- table lists

class SxTable(list):
    """list of ints whose lookup with a symbolic index builds a z3 term: an XOR of per-bit
    contributions when the table is XOR-linear (checked exhaustively over the table: T[0]=0 and
    T[i] = xor of T[2^k] over the set bits of i — true of CRC tables), else a balanced ite tree."""

    def _linear_basis(self):
        n = len(self)
        key = (n, hash(tuple(list.__iter__(self))))
        if getattr(self, "_lin_key", None) == key:
            return self._lin
        lin = None
        if n >= 2 and n & (n - 1) == 0 and all(type(v) is int and v >= 0 for v in list.__iter__(self)):
            bits = n.bit_length() - 1
            basis = [list.__getitem__(self, 1 << k) for k in range(bits)]
            ok = list.__getitem__(self, 0) == 0
            if ok:
                for i in range(n):
                    acc = 0
                    for k in range(bits):
                        if (i >> k) & 1:
                            acc ^= basis[k]
                    if acc != list.__getitem__(self, i):
                        ok = False
                        break
            lin = basis if ok else None
        self._lin_key, self._lin = key, lin
        return lin

    def __getitem__(self, i):
        if isinstance(i, SymInt):
            n = len(self)
            if i.lo < 0 or i.hi >= n:
                if not ((i >= 0) & (i < n)):
                    raise IndexError("list index out of range")
            lo_i, hi_i = max(i.lo, 0), min(i.hi, n - 1)
            vals = list.__getitem__(self, slice(lo_i, hi_i + 1))
            if not all(isinstance(v, int) for v in vals):
                return list.__getitem__(self, i.__index__())
            basis = self._linear_basis()
            if basis is not None:
                acc = _bv(0)
                for k, bk in enumerate(basis):
                    acc = acc ^ z3.If(z3.Extract(k, k, i.e) == z3.BitVecVal(1, 1), _bv(bk), _bv(0))
                return _mk(acc, 0, (1 << max(vals).bit_length()) - 1)

            def tree(a, b):
                if a == b:
                    return _bv(list.__getitem__(self, a))
                mid = (a + b) // 2
                return z3.If(i.e <= _bv(mid), tree(a, mid), tree(mid + 1, b))

            return _mk(tree(lo_i, hi_i), min(vals), max(vals))
        return list.__getitem__(self, i)


# ----------------------------------------------------------------------------- enum lookup

_ORIG_ENUM_CALL = enum.EnumType.__call__
_ENUM_PATCHED = False


def _enum_call(cls, value, *a, **k):
    if isinstance(value, SymInt) and not a and not k:
        vals = [m.value for m in cls]
        if all(isinstance(v, int) for v in vals):
            valid = sym_or(*[value == v for v in vals])
            if valid:
                return EnumProxy(cls, value)
            # documented lookup order: _missing_ hook, then ValueError
            r = cls._missing_(value)
            if r is None:
                raise ValueError(f"<symbolic> is not a valid {cls.__qualname__}")
            return r
        value = value.__index__()
    elif isinstance(value, EnumProxy):
        value = value._concrete()
    return _ORIG_ENUM_CALL(cls, value, *a, **k)


def patch_enum():
    global _ENUM_PATCHED
    if not _ENUM_PATCHED:
        enum.EnumType.__call__ = _enum_call
        _ENUM_PATCHED = True


def unpatch_enum():
    global _ENUM_PATCHED
    if _ENUM_PATCHED:
        enum.EnumType.__call__ = _ORIG_ENUM_CALL
        _ENUM_PATCHED = False


# ----------------------------------------------------------------------------- datetime

class SxTimedelta(_datetime.timedelta):
    """timedelta whose total_seconds() may be symbolic (whole seconds)."""

    _sym_seconds = None

    @staticmethod
    def symbolic(total_seconds):
        td = SxTimedelta(0)
        td._sym_seconds = total_seconds
        return td

    def total_seconds(self):
        if self._sym_seconds is not None:
            from .values import _fl
            return _fl(self._sym_seconds)
        return _datetime.timedelta.total_seconds(self)

    def __eq__(self, o):
        if isinstance(o, _datetime.timedelta):
            a = self._sym_seconds if self._sym_seconds is not None else None
            b = getattr(o, "_sym_seconds", None)
            if a is not None or b is not None:
                ea = a if a is not None else _whole_seconds(self)
                eb = b if b is not None else _whole_seconds(o)
                return ea == eb
        return _datetime.timedelta.__eq__(self, o)

    def __ne__(self, o):
        r = self.__eq__(o)
        return (not r) if isinstance(r, bool) else ~r

    __hash__ = _datetime.timedelta.__hash__


def _whole_seconds(td):
    if td.microseconds:
        raise EngineUnsupported("timedelta with microseconds compared to symbolic timedelta")
    return td.days * 86400 + td.seconds


class _TimedeltaMeta(type):
    def __instancecheck__(cls, obj):
        return isinstance(obj, _datetime.timedelta)


class SxTimedeltaFactory(metaclass=_TimedeltaMeta):
    def __new__(cls, days=0, seconds=0, microseconds=0, milliseconds=0, minutes=0, hours=0, weeks=0):
        args = (days, seconds, microseconds, milliseconds, minutes, hours, weeks)
        if any(isinstance(a, (SymInt, SymFloat)) for a in args):
            if any(isinstance(a, SymFloat) for a in args) or microseconds or milliseconds:
                raise EngineUnsupported("timedelta from symbolic float")
            total = ((weeks * 7 + days) * 24 + hours) * 3600 + minutes * 60 + seconds
            return SxTimedelta.symbolic(total)
        return _datetime.timedelta(days, seconds, microseconds, milliseconds, minutes, hours, weeks)


class SxTime:
    """datetime.time with possibly symbolic hour/minute (only what the repo reads)."""

    def __init__(self, hour=0, minute=0, second=0, microsecond=0, tzinfo=None):
        for nm, v, top in (("hour", hour, 24), ("minute", minute, 60)):
            if isinstance(v, SymInt):
                if not ((v >= 0) & (v < top)):
                    raise ValueError(f"{nm} must be in 0..{top - 1}")
            elif not 0 <= v < top:
                raise ValueError(f"{nm} must be in 0..{top - 1}")
        self.hour = hour
        self.minute = minute
        self.second = second
        self.microsecond = microsecond
        self.tzinfo = tzinfo

    def __eq__(self, o):
        if isinstance(o, (SxTime, _datetime.time)):
            from .values import sym_and
            return sym_and(self.hour == o.hour, self.minute == o.minute, self.second == o.second)
        return False

    def __ne__(self, o):
        r = self.__eq__(o)
        return (not r) if isinstance(r, bool) else ~r

    __hash__ = None

    def __repr__(self):
        return f"SxTime({self.hour},{self.minute})"


class _TimeMeta(type):
    def __instancecheck__(cls, obj):
        return isinstance(obj, (_datetime.time, SxTime))


class SxTimeFactory(metaclass=_TimeMeta):
    def __new__(cls, hour=0, minute=0, second=0, microsecond=0, tzinfo=None, *, fold=0):
        if any(isinstance(a, SymInt) for a in (hour, minute, second, microsecond)):
            return SxTime(hour, minute, second, microsecond, tzinfo)
        return _datetime.time(hour, minute, second, microsecond, tzinfo, fold=fold)


class _DatetimeModule(types.ModuleType):
    def __init__(self):
        super().__init__("datetime")
        for k in dir(_datetime):
            if not k.startswith("__"):
                setattr(self, k, getattr(_datetime, k))
        self.timedelta = SxTimedeltaFactory
        self.time = SxTimeFactory


# ----------------------------------------------------------------------------- installation

_INSTALLED: list = []   # (module, name, had, old)


def _set(mod, name, value):
    had = name in mod.__dict__
    old = mod.__dict__.get(name)
    _INSTALLED.append((mod, name, had, old))
    setattr(mod, name, value)


def repo_modules(prefix="pyairtouch"):
    return [m for n, m in sorted(sys.modules.items())
            if m is not None and (n == prefix or n.startswith(prefix + "."))]


def install(prefix="pyairtouch"):
    """Inject the shims into every loaded module of the package. Idempotent per module."""
    if _INSTALLED:
        return
    from . import procstate
    procstate.restore()          # whatever ran before (self-test vectors, lemmas) must not become the recorded baseline
    patch_enum()
    dt = _DatetimeModule()
    for mod in repo_modules(prefix):
        d = mod.__dict__
        _set(mod, "bytearray", SxBytearray)
        _set(mod, "bytes", SxBytes)
        _set(mod, "int", SxInt)
        _set(mod, "float", SxFloat)
        _set(mod, "round", sx_round)
        _set(mod, "min", sx_min)
        _set(mod, "max", sx_max)
        _set(mod, "divmod", sx_divmod)
        _set(mod, "abs", sx_abs)
        _set(mod, "range", sx_range)
        for name, val in list(d.items()):
            if name.startswith("__"):
                continue
            if val is _struct:
                _set(mod, name, _StructModule)
            elif val is _datetime:
                _set(mod, name, dt)
            elif isinstance(val, _struct.Struct):
                _set(mod, name, SxStruct(val.format))
            elif type(val) is list and len(val) >= 16 and all(type(x) is int for x in val):
                _set(mod, name, SxTable(val))
            elif type(val) is str:
                _set(mod, name, ConstStr(val))
            elif name == "INSTANCE" and type(val).__module__.startswith(prefix):
                wrap_int_dicts(val, prefix)
    from . import procstate
    procstate.snapshot(prefix)


def uninstall():
    from . import procstate
    if _INSTALLED:
        procstate.restore()
    unwrap_int_dicts()
    while _INSTALLED:
        mod, name, had, old = _INSTALLED.pop()
        if had:
            setattr(mod, name, old)
        else:
            try:
                delattr(mod, name)
            except AttributeError:
                pass
    unpatch_enum()
    from . import procstate
    procstate.snapshot()


# ----------------------------------------------------------------------------- dicts looked up with symbolic keys

class SymKeyDict(dict):
    """dict with concrete int keys whose lookups accept a symbolic key: branches on
    key == k for the keys present (|keys|+1 classes instead of one per feasible value)."""

    def _find(self, key):
        if isinstance(key, SymInt):
            for k in dict.keys(self):
                if key == k:
                    return k, True
            return None, False
        return key, dict.__contains__(self, key)

    def get(self, key, default=None):
        k, ok = self._find(key)
        return dict.__getitem__(self, k) if ok else default

    def __getitem__(self, key):
        k, ok = self._find(key)
        if not ok:
            raise KeyError(key)
        return dict.__getitem__(self, k)

    def __contains__(self, key):
        return self._find(key)[1]


_WRAPPED_DICTS: list = []   # (owner object, attribute name, original dict)


def wrap_int_dicts(root, prefix="pyairtouch", _seen=None, _depth=0):
    """Replace plain int-keyed dict attributes reachable from root (objects of the package only)."""
    if _seen is None:
        _seen = set()
    if id(root) in _seen or _depth > 6:
        return
    _seen.add(id(root))
    d = getattr(root, "__dict__", None)
    if not isinstance(d, dict):
        return
    for name, val in list(d.items()):
        if type(val) is dict and val and all(type(k) is int for k in val):
            _WRAPPED_DICTS.append((root, name, val))
            setattr(root, name, SymKeyDict(val))
            for v in val.values():
                if type(v).__module__.startswith(prefix):
                    wrap_int_dicts(v, prefix, _seen, _depth + 1)
        elif type(val).__module__.startswith(prefix) and not isinstance(val, type):
            wrap_int_dicts(val, prefix, _seen, _depth + 1)


def unwrap_int_dicts():
    while _WRAPPED_DICTS:
        owner, name, orig = _WRAPPED_DICTS.pop()
        cur = getattr(owner, name, None)
        if isinstance(cur, SymKeyDict):
            # keep registrations made meanwhile
            orig.clear()
            orig.update(dict(cur))
        setattr(owner, name, orig)
