"""Strict UTF-8 validity (as CPython's codec decides it) as a z3 formula over bytes — no forking."""
import z3

from .values import SymBool, _e


def _step(state, b):
    I = lambda v: z3.BitVecVal(v, 8)  # noqa: E731

    def rng(lo, hi):
        return z3.And(z3.UGE(b, lo), z3.ULE(b, hi))

    cont = rng(0x80, 0xBF)
    # states: 0 accept, 1 reject, 2 need 1 cont, 3 need 2 cont, 4 after E0, 5 after ED,
    #         6 after F0, 7 need 3 cont, 8 after F4
    from0 = z3.If(z3.ULE(b, 0x7F), I(0),
            z3.If(rng(0xC2, 0xDF), I(2),
            z3.If(b == 0xE0, I(4),
            z3.If(z3.Or(rng(0xE1, 0xEC), rng(0xEE, 0xEF)), I(3),
            z3.If(b == 0xED, I(5),
            z3.If(b == 0xF0, I(6),
            z3.If(rng(0xF1, 0xF3), I(7),
            z3.If(b == 0xF4, I(8), I(1)))))))))
    return z3.If(state == 0, from0,
           z3.If(state == 2, z3.If(cont, I(0), I(1)),
           z3.If(state == 3, z3.If(cont, I(2), I(1)),
           z3.If(state == 4, z3.If(rng(0xA0, 0xBF), I(2), I(1)),
           z3.If(state == 5, z3.If(rng(0x80, 0x9F), I(2), I(1)),
           z3.If(state == 6, z3.If(rng(0x90, 0xBF), I(3), I(1)),
           z3.If(state == 7, z3.If(cont, I(3), I(1)),
           z3.If(state == 8, z3.If(rng(0x80, 0x8F), I(3), I(1)), I(1)))))))))


def utf8_valid_expr(items):
    st = z3.BitVecVal(0, 8)
    for x in items:
        b = z3.Extract(7, 0, _e(x))
        st = _step(st, b)
    return st == 0


def utf8_valid(items):
    if all(isinstance(x, int) for x in items):
        try:
            bytes(items).decode("utf-8")
            return True
        except UnicodeDecodeError:
            return False
    return SymBool(utf8_valid_expr(items))


def selftest(samples=400, seed=1):
    """Differential test of the DFA formula against CPython's decoder (boundary-biased)."""
    import random

    def conc(bs):
        st = z3.BitVecVal(0, 8)
        for x in bs:
            st = z3.simplify(_step(st, z3.BitVecVal(x, 8)))
        return st.as_long() == 0

    edge = (0x00, 0x7F, 0x80, 0x8F, 0x90, 0x9F, 0xA0, 0xBF, 0xC0, 0xC1, 0xC2, 0xDF, 0xE0, 0xE1, 0xEC,
            0xED, 0xEE, 0xEF, 0xF0, 0xF1, 0xF3, 0xF4, 0xF5, 0xFF)
    cases = [(b,) for b in range(256)]
    cases += [(a, b) for a in edge for b in edge]
    rnd = random.Random(seed)
    for _ in range(samples):
        ln = rnd.choice((3, 4))
        cases.append(tuple(rnd.choice((rnd.randrange(256), rnd.choice(edge))) for _ in range(ln)))
    bad = 0
    for bs in cases:
        try:
            bytes(bs).decode("utf-8")
            ok = True
        except UnicodeDecodeError:
            ok = False
        if conc(bs) != ok:
            bad += 1
    return len(cases), bad
