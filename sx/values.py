"""Proxy values: SymBool, SymInt (BV64 + interval), SymFloat (Float64), SymReal, SymBytes, Utf8Str."""
from __future__ import annotations

import math
import struct as _struct
from fractions import Fraction

import z3

from . import core
from .core import W, EngineUnsupported, Inconclusive

LIM = 1 << 62  # |value| beyond this is not representable soundly in BV64 arithmetic


# ----------------------------------------------------------------------------- bool

def as_bool_expr(b):
    if isinstance(b, SymBool):
        return b.e
    if isinstance(b, (bool, int)):
        return z3.BoolVal(bool(b))
    if b is None:
        return z3.BoolVal(False)
    raise TypeError(f"not a boolean: {type(b)}")


class SymBool:
    __slots__ = ("e",)

    def __init__(self, e):
        self.e = e

    def __bool__(self):
        return core.cur().branch(self.e)

    def __and__(self, o):
        return SymBool(z3.And(self.e, as_bool_expr(o)))

    __rand__ = __and__

    def __or__(self, o):
        return SymBool(z3.Or(self.e, as_bool_expr(o)))

    __ror__ = __or__

    def __xor__(self, o):
        return SymBool(z3.Xor(self.e, as_bool_expr(o)))

    __rxor__ = __xor__

    def __invert__(self):
        return SymBool(z3.Not(self.e))

    def __eq__(self, o):
        if isinstance(o, (SymBool, bool)):
            return SymBool(self.e == as_bool_expr(o))
        if isinstance(o, (int, SymInt)):
            return SymInt(z3.If(self.e, _bv(1), _bv(0)), 0, 1) == o
        return False

    def __ne__(self, o):
        r = self.__eq__(o)
        return (not r) if isinstance(r, bool) else ~r

    __hash__ = None

    def __int__(self):
        return SymInt(z3.If(self.e, _bv(1), _bv(0)), 0, 1)

    __index__ = None

    def _as_int(self):
        return SymInt(z3.If(self.e, _bv(1), _bv(0)), 0, 1)

    def __add__(self, o):
        return self._as_int() + o

    __radd__ = __add__

    def __lshift__(self, o):
        return self._as_int() << o

    def __mul__(self, o):
        return self._as_int() * o

    __rmul__ = __mul__

    def __repr__(self):
        return f"SymBool({z3.simplify(self.e)})"

    def __format__(self, spec):
        return "<symbool>"


def sym_and(*bs):
    """Conjunction without forking."""
    es = []
    for b in bs:
        if isinstance(b, SymBool):
            es.append(b.e)
        elif not b:
            return False
    if not es:
        return True
    return SymBool(z3.And(*es))


def sym_or(*bs):
    es = []
    for b in bs:
        if isinstance(b, SymBool):
            es.append(b.e)
        elif b:
            return True
    if not es:
        return False
    return SymBool(z3.Or(*es))


def sym_not(b):
    if isinstance(b, SymBool):
        return ~b
    return not b


def sym_implies(a, b):
    return sym_or(sym_not(a), b)


def sym_ite(c, a, b):
    """If-then-else over ints/bools/floats without forking (c may be SymBool)."""
    if not isinstance(c, SymBool):
        return a if c else b
    if isinstance(a, (SymBool, bool)) and isinstance(b, (SymBool, bool)):
        return SymBool(z3.If(c.e, as_bool_expr(a), as_bool_expr(b)))
    if isinstance(a, (SymFloat, float)) or isinstance(b, (SymFloat, float)):
        fa, fb = _fl(a), _fl(b)
        return SymFloat(z3.If(c.e, fa.e, fb.e), min(fa.lo, fb.lo), max(fa.hi, fb.hi))
    la, ha = _rng(a)
    lb, hb = _rng(b)
    return SymInt(z3.If(c.e, _e(a), _e(b)), min(la, lb), max(ha, hb))


def sym_eq(a, b):
    """Equality as a (Sym)Bool without forking for the supported value kinds."""
    r = (a == b)
    return r


# ----------------------------------------------------------------------------- int

def _bv(v):
    return z3.BitVecVal(v, W)


def _e(x):
    if isinstance(x, SymInt):
        return x.e
    if isinstance(x, bool):
        return _bv(int(x))
    if isinstance(x, int):
        if not -LIM <= x <= LIM:
            raise EngineUnsupported("integer constant beyond 2^62")
        return _bv(x)
    if isinstance(x, SymBool):
        return z3.If(x.e, _bv(1), _bv(0))
    raise TypeError(type(x))


def _rng(x):
    if isinstance(x, SymInt):
        return x.lo, x.hi
    if isinstance(x, SymBool):
        return 0, 1
    x = int(x)
    return x, x


def _isint(x):
    return isinstance(x, (int, SymInt, SymBool))


def _mk(e, lo, hi):
    if lo < -LIM or hi > LIM:
        raise EngineUnsupported("integer interval leaves ±2^62 (BV64 would wrap where Python does not)")
    if lo == hi:
        return lo
    return SymInt(e, lo, hi)


def _bitlen_mask(hi):
    return (1 << max(hi, 0).bit_length()) - 1


class SymInt:
    __slots__ = ("e", "lo", "hi")

    def __init__(self, e, lo=-LIM, hi=LIM):
        self.e = e
        self.lo = lo
        self.hi = hi

    # arithmetic ------------------------------------------------------------
    def __add__(s, o):
        if isinstance(o, (float, SymFloat)):
            return _fl(s) + o
        if not _isint(o):
            return NotImplemented
        lo, hi = _rng(o)
        return _mk(s.e + _e(o), s.lo + lo, s.hi + hi)

    __radd__ = __add__

    def __sub__(s, o):
        if isinstance(o, (float, SymFloat)):
            return _fl(s) - o
        if not _isint(o):
            return NotImplemented
        lo, hi = _rng(o)
        return _mk(s.e - _e(o), s.lo - hi, s.hi - lo)

    def __rsub__(s, o):
        if isinstance(o, (float, SymFloat)):
            return _fl(o) - _fl(s)
        if not _isint(o):
            return NotImplemented
        lo, hi = _rng(o)
        return _mk(_e(o) - s.e, lo - s.hi, hi - s.lo)

    def __neg__(s):
        return _mk(-s.e, -s.hi, -s.lo)

    def __pos__(s):
        return s

    def __abs__(s):
        return sym_ite(s >= 0, s, -s)

    def __mul__(s, o):
        if isinstance(o, (float, SymFloat)):
            return _fl(s) * o
        if isinstance(o, (bytes, str, list, tuple)):
            return o * s.__index__()
        if not _isint(o):
            return NotImplemented
        lo, hi = _rng(o)
        ps = (s.lo * lo, s.lo * hi, s.hi * lo, s.hi * hi)
        return _mk(s.e * _e(o), min(ps), max(ps))

    __rmul__ = __mul__

    def __truediv__(s, o):
        return _fl(s) / o

    def __rtruediv__(s, o):
        return _fl(o) / _fl(s)

    def _floordiv(s, o):
        if not isinstance(o, int) or isinstance(o, bool) or o <= 0:
            raise EngineUnsupported("floor division by a non-constant or non-positive divisor")
        # Python floor semantics from BV signed division (which truncates)
        q = z3.If(s.e >= 0, s.e / _bv(o), -((-s.e + _bv(o - 1)) / _bv(o)))
        return q, s.lo // o, s.hi // o

    def __floordiv__(s, o):
        q, lo, hi = s._floordiv(o)
        return _mk(q, lo, hi)

    def __mod__(s, o):
        q, _, _ = s._floordiv(o)
        if s.lo // o == s.hi // o:
            return _mk(s.e - q * _bv(o), s.lo % o, s.hi % o)
        return _mk(s.e - q * _bv(o), 0, o - 1)

    def __divmod__(s, o):
        return s // o, s % o

    def __rfloordiv__(s, o):
        raise EngineUnsupported("division by a symbolic integer")

    __rmod__ = __rfloordiv__

    def __pow__(s, o):
        raise EngineUnsupported("power of symbolic integer")

    # bit operations (non-negative operands only; negatives are rejected) -------
    def _nonneg(s, o):
        lo, _ = _rng(o)
        if s.lo < 0 or lo < 0:
            raise EngineUnsupported("bit operation on a possibly negative integer")

    def __and__(s, o):
        if not _isint(o):
            return NotImplemented
        lo, hi = _rng(o)
        if lo >= 0 and s.lo < 0:
            # x & mask with mask >= 0 is fine for negative x in two's complement (Python semantics agree)
            return _mk(s.e & _e(o), 0, hi)
        s._nonneg(o)
        return _mk(s.e & _e(o), 0, min(s.hi, hi))

    __rand__ = __and__

    def __or__(s, o):
        if not _isint(o):
            return NotImplemented
        s._nonneg(o)
        lo, hi = _rng(o)
        return _mk(s.e | _e(o), max(s.lo, lo), _bitlen_mask(max(s.hi, hi)))

    __ror__ = __or__

    def __xor__(s, o):
        if not _isint(o):
            return NotImplemented
        s._nonneg(o)
        lo, hi = _rng(o)
        return _mk(s.e ^ _e(o), 0, _bitlen_mask(max(s.hi, hi)))

    __rxor__ = __xor__

    def __invert__(s):
        return _mk(~s.e, -s.hi - 1, -s.lo - 1)

    def __lshift__(s, o):
        if isinstance(o, SymInt):
            o = o.__index__()
        if not isinstance(o, int) or o < 0:
            raise EngineUnsupported("shift by non-constant")
        return _mk(s.e << o, s.lo << o, s.hi << o)

    def __rlshift__(s, o):
        # const << symbolic (bool_to_bit style with symbolic offset): concretise the shift amount
        return o << s.__index__()

    def __rshift__(s, o):
        if isinstance(o, SymInt):
            o = o.__index__()
        if not isinstance(o, int) or o < 0:
            raise EngineUnsupported("shift by non-constant")
        return _mk(s.e >> o, s.lo >> o, s.hi >> o)  # z3 >> is arithmetic, like Python

    def __rrshift__(s, o):
        return o >> s.__index__()

    # comparisons ---------------------------------------------------------------
    def _cmp(s, o, op):
        if isinstance(o, (float, SymFloat)):
            return _PYOPS[op](_fl(s), o)
        if isinstance(o, SymReal):
            return NotImplemented
        if not _isint(o):
            return NotImplemented
        lo, hi = _rng(o)
        r = _interval_cmp(op, s.lo, s.hi, lo, hi)
        if r is not None:
            return r
        return SymBool(_Z3OPS[op](s.e, _e(o)))

    def __eq__(s, o):
        if isinstance(o, EnumProxy):
            return False
        r = s._cmp(o, "eq")
        return False if r is NotImplemented else r

    def __ne__(s, o):
        if isinstance(o, EnumProxy):
            return True
        r = s._cmp(o, "ne")
        return True if r is NotImplemented else r

    def __lt__(s, o):
        return s._cmp(o, "lt")

    def __le__(s, o):
        return s._cmp(o, "le")

    def __gt__(s, o):
        return s._cmp(o, "gt")

    def __ge__(s, o):
        return s._cmp(o, "ge")

    def __bool__(s):
        if s.lo > 0 or s.hi < 0:
            return True
        return core.cur().branch(s.e != _bv(0))

    # concretisation (exhaustive, forking) -----------------------------------------
    def concretise(s):
        """Exhaustive concretisation: forks on the bits of (value - lo), MSB first."""
        v = z3.simplify(s.e)
        if z3.is_bv_value(v):
            return v.as_signed_long()
        span = s.hi - s.lo
        if span > (1 << 20):
            raise EngineUnsupported("concretisation of an integer with a range wider than 2^20")
        ctx = core.cur()
        off = s.e - _bv(s.lo)
        val = 0
        for b in reversed(range(span.bit_length())):
            if ctx.branch(z3.Extract(b, b, off) == z3.BitVecVal(1, 1)):
                val |= 1 << b
        return s.lo + val

    def __index__(s):
        return s.concretise()

    def __int__(s):
        return s

    def __float__(s):
        raise EngineUnsupported("float() of symbolic int must go through the shim")

    def __hash__(s):
        return hash(s.concretise())

    def __round__(s, ndigits=None):
        return s

    def __trunc__(s):
        return s

    def bit_length(s):
        raise EngineUnsupported("bit_length of symbolic integer")

    def to_bytes(s, length=1, byteorder="big", *, signed=False):
        if signed:
            raise EngineUnsupported("signed to_bytes")
        if s.lo < 0 or s.hi >= (1 << (8 * length)):
            if not (s >= 0) & (s < (1 << (8 * length))):
                raise OverflowError("int too big to convert")
        bs = [_mk(z3.ZeroExt(W - 8, z3.Extract(8 * i + 7, 8 * i, s.e)), 0, 255) for i in range(length)]
        if byteorder == "big":
            bs.reverse()
        return SymBytes(bs)

    def __repr__(s):
        return f"SymInt({z3.simplify(s.e)} in [{s.lo},{s.hi}])"

    def __format__(s, spec):
        return "<symint>"

    def __str__(s):
        return "<symint>"


import operator as _op

_PYOPS = {"eq": _op.eq, "ne": _op.ne, "lt": _op.lt, "le": _op.le, "gt": _op.gt, "ge": _op.ge}
_Z3OPS = {"eq": lambda a, b: a == b, "ne": lambda a, b: a != b, "lt": lambda a, b: a < b,
          "le": lambda a, b: a <= b, "gt": lambda a, b: a > b, "ge": lambda a, b: a >= b}


def _interval_cmp(name, alo, ahi, blo, bhi):
    """Truth value of `a <name> b` if decided by intervals, else None."""
    if name == "eq":
        if ahi < blo or bhi < alo:
            return False
        if alo == ahi == blo == bhi:
            return True
    elif name == "ne":
        if ahi < blo or bhi < alo:
            return True
        if alo == ahi == blo == bhi:
            return False
    elif name == "lt":
        if ahi < blo:
            return True
        if alo >= bhi:
            return False
    elif name == "le":
        if ahi <= blo:
            return True
        if alo > bhi:
            return False
    elif name == "gt":
        if alo > bhi:
            return True
        if ahi <= blo:
            return False
    elif name == "ge":
        if alo >= bhi:
            return True
        if ahi < blo:
            return False
    return None


def _model_value(ctx, e):
    """Value of BV term e under ctx.model (signed)."""
    names = core.expr_vars(e)
    subs = [(ctx.vars[n], ctx._val_expr(n, ctx.vars[n])) for n in names]
    r = z3.simplify(z3.substitute(e, *subs)) if subs else z3.simplify(e)
    if not z3.is_bv_value(r):
        raise Inconclusive("could not evaluate term under model")
    return r.as_signed_long()


def sx_int(x=0, base=None):
    """Replacement for builtin int inside repo modules."""
    if isinstance(x, SymFloat):
        return x.__int__()
    if isinstance(x, (SymInt,)):
        return x
    if isinstance(x, SymBool):
        return x._as_int()
    if base is not None:
        return int(x, base)
    return int(x)


# ----------------------------------------------------------------------------- float

F64 = z3.Float64()
RNE = z3.RNE()
RTZ = z3.RTZ()


def _fl(x):
    if isinstance(x, SymFloat):
        return x
    if isinstance(x, SymInt):
        if max(abs(x.lo), abs(x.hi)) > (1 << 53):
            raise EngineUnsupported("int→float of a value that may exceed 2^53")
        # convert from the narrowest signed width that holds the interval (cheaper to bit-blast)
        nb = max(x.lo.bit_length(), x.hi.bit_length()) + 1
        leaf = z3.Extract(nb - 1, 0, x.e) if nb < W else x.e
        from . import fplemma
        fplemma.note_leaf(leaf, x.lo, x.hi)
        return SymFloat(z3.fpSignedToFP(RNE, leaf, F64), float(x.lo), float(x.hi), intview=x)
    if isinstance(x, SymBool):
        return _fl(x._as_int())
    if isinstance(x, bool):
        x = int(x)
    if isinstance(x, int):
        if abs(x) > (1 << 53):
            raise EngineUnsupported("int→float beyond 2^53")
        return SymFloat(z3.FPVal(float(x), F64), float(x), float(x), intview=x)
    if isinstance(x, float):
        iv = int(x) if (math.isfinite(x) and x.is_integer() and abs(x) < (1 << 53)) else None
        return SymFloat(z3.FPVal(x, F64), x, x, intview=iv)
    raise TypeError(type(x))


def _widen(lo, hi):
    """Outward-rounded interval (conservative for one rounding step)."""
    if math.isnan(lo) or math.isnan(hi):
        return -math.inf, math.inf
    return math.nextafter(lo, -math.inf), math.nextafter(hi, math.inf)


def _sext(t):
    n = t.size()
    return z3.SignExt(W - n, t) if n < W else t


class SymFloat:
    """IEEE double. Carries a conservative interval and, when the value is known to be
    an exact integer or an integer divided by a constant, that exact view."""

    __slots__ = ("e", "lo", "hi", "intview", "ratview")

    def __init__(self, e, lo=-math.inf, hi=math.inf, intview=None, ratview=None):
        self.e = e
        self.lo = lo
        self.hi = hi
        self.intview = intview   # SymInt/int whose exact value this float has
        self.ratview = ratview   # (SymInt/int J, int D): this float is the correctly rounded J/D

    def _finite(self):
        return math.isfinite(self.lo) and math.isfinite(self.hi)

    def __add__(s, o):
        o = _fl(o)
        lo, hi = _widen(s.lo + o.lo, s.hi + o.hi)
        iv = None
        if s.intview is not None and o.intview is not None and max(abs(lo), abs(hi)) < (1 << 52):
            iv = s.intview + o.intview  # exact: both integers, sum below 2^53
        return SymFloat(z3.fpAdd(RNE, s.e, o.e), lo, hi, intview=iv)

    __radd__ = __add__

    def __sub__(s, o):
        o = _fl(o)
        lo, hi = _widen(s.lo - o.hi, s.hi - o.lo)
        iv = None
        if s.intview is not None and o.intview is not None and max(abs(lo), abs(hi)) < (1 << 52):
            iv = s.intview - o.intview
        return SymFloat(z3.fpSub(RNE, s.e, o.e), lo, hi, intview=iv)

    def __rsub__(s, o):
        return _fl(o) - s

    def __mul__(s, o):
        o = _fl(o)
        ps = [a * b for a in (s.lo, s.hi) for b in (o.lo, o.hi)]
        lo, hi = _widen(min(ps), max(ps))
        iv = None
        if s.intview is not None and o.intview is not None and max(abs(lo), abs(hi)) < (1 << 52):
            iv = s.intview * o.intview
        return SymFloat(z3.fpMul(RNE, s.e, o.e), lo, hi, intview=iv)

    __rmul__ = __mul__

    def __truediv__(s, o):
        o = _fl(o)
        if o.lo <= 0 <= o.hi:
            if not isinstance(o.intview, int) or o.intview == 0:
                raise EngineUnsupported("float division by a possibly-zero value")
        qs = [a / b for a in (s.lo, s.hi) for b in (o.lo, o.hi)]
        lo, hi = _widen(min(qs), max(qs))
        rv = None
        if s.intview is not None and isinstance(o.intview, int) and o.intview > 0:
            rv = (s.intview, o.intview)
        return SymFloat(z3.fpDiv(RNE, s.e, o.e), lo, hi, ratview=rv)

    def __rtruediv__(s, o):
        return _fl(o) / s

    def __neg__(s):
        return SymFloat(z3.fpNeg(s.e), -s.hi, -s.lo, intview=(-s.intview if s.intview is not None else None))

    def __pos__(s):
        return s

    def __abs__(s):
        return SymFloat(z3.fpAbs(s.e), 0.0 if s.lo <= 0 <= s.hi else min(abs(s.lo), abs(s.hi)), max(abs(s.lo), abs(s.hi)))

    def __floordiv__(s, o):
        # used by the quick-timer encoder on integer-valued floats (divmod(total_seconds(), 3600))
        if s.intview is not None and isinstance(o, int):
            return _fl(s.intview // o)
        raise EngineUnsupported("float floor division")

    def __mod__(s, o):
        if s.intview is not None and isinstance(o, int):
            return _fl(s.intview % o)
        raise EngineUnsupported("float modulo")

    def __divmod__(s, o):
        return s // o, s % o

    def _cmp(s, o, f):
        if not isinstance(o, (int, float, SymInt, SymFloat, SymBool)):
            return NotImplemented
        if isinstance(o, (int, float)) and not isinstance(o, bool) and s.ratview is not None:
            r = s._rat_cmp_const(o, f)
            if r is not None:
                return r
        o = _fl(o)
        if s.intview is not None and o.intview is not None:
            return f(s.intview, o.intview)
        small = max(abs(s.lo), abs(s.hi), abs(o.lo), abs(o.hi)) < (1 << 30)
        if small and s.ratview is not None and o.intview is not None and s.ratview[1] < (1 << 10):
            # fl(J/D) vs integer n: J/D and n differ by at least 1/D unless J == n*D (then fl(J/D) == n exactly)
            return f(s.ratview[0], o.intview * s.ratview[1])
        if small and s.intview is not None and o.ratview is not None and o.ratview[1] < (1 << 10):
            return f(s.intview * o.ratview[1], o.ratview[0])
        if s.ratview is not None and o.ratview is not None and s.ratview[1] == o.ratview[1]:
            # both correctly rounded quotients by the same small constant: order of the numerators
            if max(abs(s.lo), abs(s.hi), abs(o.lo), abs(o.hi)) * s.ratview[1] < (1 << 40):
                return f(s.ratview[0], o.ratview[0])
        return None, o

    def _rat_cmp_const(s, c, f):
        """Exact comparison of fl(J/D) with a constant c, in integers: rounding J/D to a double moves it by
        less than 2^-40 relative, while J/D and c differ by at least dist(c*D, Z)/D unless J/D == c."""
        J, D = s.ratview
        if not math.isfinite(c) or max(abs(s.lo), abs(s.hi)) * D >= (1 << 40):
            return None
        cd = Fraction(c) * D
        if cd.denominator == 1:
            return f(J, int(cd))
        lo_n = math.floor(cd)
        margin = min(cd - lo_n, lo_n + 1 - cd) / D
        if margin <= Fraction(max(1, abs(Fraction(c)))) / (1 << 36):
            return None
        # c*D strictly between lo_n and lo_n+1: compare J with the two integer neighbours
        probe_lt = f(0, 1)      # is f "less-ish"?
        probe_eq = f(0, 0)
        if probe_eq and not probe_lt and not f(1, 0):      # ==
            return False
        if not probe_eq and probe_lt and f(1, 0):          # !=
            return True
        if probe_lt:                                        # < or <=  : J/D < c  <=>  J <= lo_n
            return J <= lo_n
        return J >= lo_n + 1                                # > or >=

    def __lt__(s, o):
        r = s._cmp(o, lambda a, b: a < b)
        if isinstance(r, tuple):
            if s.hi < r[1].lo:
                return True
            if s.lo >= r[1].hi:
                return False
            return SymBool(z3.fpLT(s.e, r[1].e))
        return r

    def __le__(s, o):
        r = s._cmp(o, lambda a, b: a <= b)
        if isinstance(r, tuple):
            if s.hi <= r[1].lo:
                return True
            if s.lo > r[1].hi:
                return False
            return SymBool(z3.fpLEQ(s.e, r[1].e))
        return r

    def __gt__(s, o):
        r = s._cmp(o, lambda a, b: a > b)
        if isinstance(r, tuple):
            if s.lo > r[1].hi:
                return True
            if s.hi <= r[1].lo:
                return False
            return SymBool(z3.fpGT(s.e, r[1].e))
        return r

    def __ge__(s, o):
        r = s._cmp(o, lambda a, b: a >= b)
        if isinstance(r, tuple):
            if s.lo >= r[1].hi:
                return True
            if s.hi < r[1].lo:
                return False
            return SymBool(z3.fpGEQ(s.e, r[1].e))
        return r

    def __eq__(s, o):
        if o is None or isinstance(o, (str, bytes, EnumProxy)):
            return False
        r = s._cmp(o, lambda a, b: a == b)
        if r is NotImplemented:
            return False
        if isinstance(r, tuple):
            o = r[1]
            if s.hi < o.lo or o.hi < s.lo:
                return False
            if s.e.eq(o.e) and s._finite():
                return True  # identical term, not NaN
            if s.ratview is not None and o.ratview is not None and s.ratview[1] == o.ratview[1]:
                # both are the correctly rounded quotient by the same constant: equal iff numerators equal
                # (x -> fl(x/D) is injective on integers below 2^53/D since consecutive quotients differ by 1/D >> ulp)
                D = s.ratview[1]
                if max(abs(s.lo), abs(s.hi)) * D < (1 << 40):
                    return s.ratview[0] == o.ratview[0]
            return SymBool(z3.fpEQ(s.e, o.e))
        return r

    def __ne__(s, o):
        r = s.__eq__(o)
        return (not r) if isinstance(r, bool) else ~r

    __hash__ = None

    def __bool__(s):
        if s.lo > 0 or s.hi < 0:
            return True
        if s.intview is not None:
            return bool(s.intview != 0)
        if s.ratview is not None:
            return bool(s.ratview[0] != 0)
        return core.cur().branch(z3.Not(z3.fpIsZero(s.e)))

    def _to_int_term(s, rm_term_builder, lo, hi):
        """Integer SymInt from an FP→integer conversion, with the shape-lemma rewrite."""
        from . import fplemma
        raw = rm_term_builder(s.e)
        return fplemma.rewrite_or_keep(raw, lo, hi)

    def __int__(s):
        if s.intview is not None:
            return s.intview
        if not s._finite():
            raise EngineUnsupported("int() of a float that may be inf/nan")
        lo, hi = math.trunc(s.lo), math.trunc(s.hi)
        nb = min(W, max(lo.bit_length(), hi.bit_length()) + 2)
        return s._to_int_term(lambda e: _sext(z3.fpToSBV(RTZ, e, z3.BitVecSort(nb))), lo, hi)

    __trunc__ = __int__

    def __round__(s, ndigits=None):
        if ndigits is None:
            if s.intview is not None:
                return s.intview
            if not s._finite():
                raise EngineUnsupported("round() of a float that may be inf/nan")
            lo, hi = round(s.lo), round(s.hi)
            nb = min(W, max(lo.bit_length(), hi.bit_length()) + 2)
            return s._to_int_term(
                lambda e: _sext(z3.fpToSBV(RNE, z3.fpRoundToIntegral(RNE, e), z3.BitVecSort(nb))), lo, hi)
        if s.intview is not None and isinstance(ndigits, int) and ndigits >= 0:
            return s          # an integer-valued double is its own rounding to n >= 0 digits
        if s.ratview is None or not isinstance(ndigits, int) or ndigits < 0:
            raise EngineUnsupported("round(x, n) of a float without rational view")
        # Contract model of round(x, n): the double nearest to k/10^n where k is an integer
        # with |10^n * x - k| <= 1/2. With x = fl(J/D), |x - J/D| < 2^-40, so for integers
        # |10^n*J*2 - 2*k*D| <= D (+ negligible) — at exact decimal ties both neighbours are admitted.
        J, D = s.ratview
        P = 10 ** ndigits
        ctx = core.cur()
        name = ctx.fresh_name("round_k")
        kv = z3.BitVec(name, W)
        ctx.vars[name] = kv
        klo = math.floor(s.lo * P) - 1
        khi = math.ceil(s.hi * P) + 1
        k = SymInt(kv, klo, khi)
        d = J * (2 * P) - k * (2 * D)
        ok = (d <= D) & (d >= -D)
        if not ctx.constrain(z3.And(kv >= klo, kv <= khi, as_bool_expr(ok))):
            raise core.PathAbort("round contract infeasible")
        return _fl(k) / P

    def is_integer(s):
        if s.intview is not None:
            return True
        raise EngineUnsupported("is_integer on symbolic float")

    def __float__(s):
        raise EngineUnsupported("float() of symbolic float must go through the shim")

    def __repr__(s):
        return f"SymFloat([{s.lo},{s.hi}])"

    def __format__(s, spec):
        return "<symfloat>"


def sx_float(x=0.0):
    if isinstance(x, (SymFloat,)):
        return x
    if isinstance(x, (SymInt, SymBool)):
        return _fl(x)
    return float(x)


def sx_round(x, ndigits=None):
    if isinstance(x, (SymFloat, SymInt)):
        return x.__round__(ndigits)
    return round(x) if ndigits is None else round(x, ndigits)


def sx_min(*args, **kw):
    if len(args) == 1:
        args = tuple(args[0])
    if kw:
        return min(*args, **kw)
    r = args[0]
    for a in args[1:]:
        if a < r:
            r = a
    return r


def sx_max(*args, **kw):
    if len(args) == 1:
        args = tuple(args[0])
    if kw:
        return max(*args, **kw)
    r = args[0]
    for a in args[1:]:
        if a > r:
            r = a
    return r


def sx_divmod(a, b):
    if isinstance(a, (SymInt, SymFloat)):
        return a.__divmod__(b)
    return divmod(a, b)


def sx_abs(a):
    return a.__abs__() if isinstance(a, (SymInt, SymFloat)) else abs(a)


# ----------------------------------------------------------------------------- real (time)

def _re(x):
    if isinstance(x, SymReal):
        return x.e
    if isinstance(x, bool):
        x = int(x)
    if isinstance(x, int):
        return z3.RealVal(x)
    if isinstance(x, float):
        if not math.isfinite(x):
            raise EngineUnsupported("non-finite time value")
        return z3.RealVal(Fraction(x))
    if isinstance(x, Fraction):
        return z3.RealVal(x)
    raise TypeError(f"not a time value: {type(x)}")


def _realok(x):
    return isinstance(x, (SymReal, int, float, Fraction)) and not isinstance(x, bool)


class SymReal:
    """Virtual-clock time: exact real arithmetic (only + - compare)."""

    __slots__ = ("e",)

    def __init__(self, e):
        self.e = e

    def __add__(s, o):
        if not _realok(o):
            return NotImplemented
        return SymReal(z3.simplify(s.e + _re(o)))

    __radd__ = __add__

    def __sub__(s, o):
        if not _realok(o):
            return NotImplemented
        return SymReal(z3.simplify(s.e - _re(o)))

    def __rsub__(s, o):
        if not _realok(o):
            return NotImplemented
        return SymReal(z3.simplify(_re(o) - s.e))

    def __mul__(s, o):
        if isinstance(o, (int, float, Fraction)):
            return SymReal(z3.simplify(s.e * _re(o)))
        raise EngineUnsupported("time * symbolic")

    __rmul__ = __mul__

    def __truediv__(s, o):
        if isinstance(o, (int, float, Fraction)) and o != 0:
            return SymReal(z3.simplify(s.e / _re(o)))
        raise EngineUnsupported("time / symbolic")

    def __neg__(s):
        return SymReal(-s.e)

    def _c(s, o, f):
        if not _realok(o):
            return NotImplemented
        return SymBool(f(s.e, _re(o)))

    def __lt__(s, o):
        return s._c(o, lambda a, b: a < b)

    def __le__(s, o):
        return s._c(o, lambda a, b: a <= b)

    def __gt__(s, o):
        return s._c(o, lambda a, b: a > b)

    def __ge__(s, o):
        return s._c(o, lambda a, b: a >= b)

    def __eq__(s, o):
        r = s._c(o, lambda a, b: a == b)
        return False if r is NotImplemented else r

    def __ne__(s, o):
        r = s._c(o, lambda a, b: a != b)
        return True if r is NotImplemented else r

    def __hash__(s):
        return id(s)

    def __bool__(s):
        return core.cur().branch(s.e != z3.RealVal(0))

    def __float__(s):
        raise EngineUnsupported("float() of symbolic time")

    def __repr__(s):
        return f"SymReal({z3.simplify(s.e)})"

    def __format__(s, spec):
        return "<symreal>"


def real_max(a, b):
    if isinstance(a, SymReal) or isinstance(b, SymReal):
        return SymReal(z3.If(_re(a) >= _re(b), _re(a), _re(b)))
    return max(a, b)


def real_min(a, b):
    if isinstance(a, SymReal) or isinstance(b, SymReal):
        return SymReal(z3.If(_re(a) <= _re(b), _re(a), _re(b)))
    return min(a, b)


# ----------------------------------------------------------------------------- bytes

def _item_eq_expr(a, b):
    return _e(a) == _e(b)


class SymBytes:
    """bytes/bytearray with concrete length and possibly symbolic items."""

    __slots__ = ("items",)

    def __init__(self, items=()):
        if isinstance(items, SymBytes):
            items = items.items
        self.items = list(items)

    def concrete(self):
        return all(isinstance(x, int) for x in self.items)

    def to_bytes(self):
        return bytes(self.items)

    def __len__(self):
        return len(self.items)

    def __bool__(self):
        return bool(self.items)

    def __getitem__(self, i):
        if isinstance(i, slice):
            start, stop, step = i.start, i.stop, i.step
            if isinstance(start, SymInt):
                start = start.__index__()
            if isinstance(stop, SymInt):
                stop = stop.__index__()
            return SymBytes(self.items[slice(start, stop, step)])
        if isinstance(i, SymInt):
            i = i.__index__()
        return self.items[i]

    def __setitem__(self, i, v):
        if isinstance(i, slice):
            self.items[i] = list(v)
        else:
            self.items[i] = _check_byte(v)

    def __delitem__(self, i):
        if isinstance(i, slice):
            start, stop, step = i.start, i.stop, i.step
            if isinstance(start, SymInt):
                start = start.__index__()
            if isinstance(stop, SymInt):
                stop = stop.__index__()
            del self.items[slice(start, stop, step)]
            return
        if isinstance(i, SymInt):
            i = i.__index__()
        del self.items[i]

    def clear(self):
        self.items.clear()

    def __iter__(self):
        return iter(self.items)

    def __add__(self, o):
        if isinstance(o, (bytes, bytearray, SymBytes)):
            return SymBytes(self.items + list(o))
        return NotImplemented

    def __radd__(self, o):
        if isinstance(o, (bytes, bytearray, SymBytes)):
            return SymBytes(list(o) + self.items)
        return NotImplemented

    def __iadd__(self, o):
        self.items.extend(list(o))
        return self

    def __mul__(self, n):
        return SymBytes(self.items * n)

    def extend(self, o):
        self.items.extend(_check_byte(x) for x in o)

    def append(self, x):
        self.items.append(_check_byte(x))

    def __eq__(self, o):
        if not isinstance(o, (bytes, bytearray, SymBytes)):
            return False
        o = list(o)
        if len(o) != len(self.items):
            return False
        es = []
        for a, b in zip(self.items, o):
            if isinstance(a, int) and isinstance(b, int):
                if a != b:
                    return False
            else:
                es.append(_item_eq_expr(a, b))
        if not es:
            return True
        return SymBool(z3.And(*es))

    def __ne__(self, o):
        r = self.__eq__(o)
        return (not r) if isinstance(r, bool) else ~r

    __hash__ = None

    def __contains__(self, sub):
        if isinstance(sub, (int, SymInt)):
            return bool(sym_or(*[x == sub for x in self.items]))
        sub = list(sub)
        n, m = len(self.items), len(sub)
        if m == 0:
            return True
        alts = []
        for p in range(n - m + 1):
            alts.append(SymBytes(self.items[p:p + m]) == SymBytes(sub))
        return bool(sym_or(*alts))

    def find(self, sub):
        sub = list(sub) if not isinstance(sub, (int, SymInt)) else [sub]
        n, m = len(self.items), len(sub)
        for p in range(n - m + 1):
            if SymBytes(self.items[p:p + m]) == SymBytes(sub):
                return p
        return -1

    def split(self, sep=None, maxsplit=-1):
        if sep is None:
            raise EngineUnsupported("bytes.split() on whitespace")
        sep = list(sep)
        out = []
        cur_start = 0
        i = 0
        n, m = len(self.items), len(sep)
        while i <= n - m and (maxsplit < 0 or len(out) < maxsplit):
            if SymBytes(self.items[i:i + m]) == SymBytes(sep):
                out.append(SymBytes(self.items[cur_start:i]))
                i += m
                cur_start = i
            else:
                i += 1
        out.append(SymBytes(self.items[cur_start:]))
        return out

    def strip(self, chars=None):
        if self.concrete():
            return SymBytes(self.to_bytes().strip(chars))
        raise EngineUnsupported("strip on symbolic bytes")

    def rstrip(self, chars=None):
        if self.concrete():
            return SymBytes(self.to_bytes().rstrip(chars))
        if chars is None:
            raise EngineUnsupported("rstrip() of whitespace on symbolic bytes")
        chars = list(chars)
        n = len(self.items)
        while n > 0 and bool(sym_or(*[self.items[n - 1] == c for c in chars])):   # forks per trailing byte
            n -= 1
        return SymBytes(self.items[:n])

    def lstrip(self, chars=None):
        if self.concrete():
            return SymBytes(self.to_bytes().lstrip(chars))
        if chars is None:
            raise EngineUnsupported("lstrip() of whitespace on symbolic bytes")
        chars = list(chars)
        k = 0
        while k < len(self.items) and bool(sym_or(*[self.items[k] == c for c in chars])):
            k += 1
        return SymBytes(self.items[k:])

    def startswith(self, p):
        p = list(p)
        if len(p) > len(self.items):
            return False
        return bool(SymBytes(self.items[:len(p)]) == SymBytes(p))

    def decode(self, encoding="utf-8", errors="strict"):
        enc = str(encoding).lower().replace("_", "-")
        if enc not in ("utf-8", "utf8"):
            raise EngineUnsupported(f"decode with {encoding}")
        if self.concrete():
            return Utf8Str.of(self.to_bytes().decode("utf-8", errors))
        from .utf8 import utf8_valid
        ok = utf8_valid(self.items)
        if not ok:
            if errors != "strict":
                # the replacement text of symbolic invalid bytes is not representable: concretise the bytes (forks)
                return Utf8Str.of(bytes(self).decode("utf-8", errors))
            raise UnicodeDecodeError("utf-8", b"", 0, 1, "invalid (symbolic)")
        return Utf8Str(self.items)

    def hex(self, *a, **k):
        if self.concrete():
            return self.to_bytes().hex(*a, **k)
        return "<symbytes>"

    def __bytes__(self):
        if self.concrete():
            return bytes(self.items)
        return bytes(x if isinstance(x, int) else x.__index__() for x in self.items)

    def __repr__(self):
        if self.concrete():
            return f"SymBytes({self.to_bytes().hex()})"
        return f"SymBytes(len={len(self.items)})"

    def __format__(self, spec):
        return repr(self)

    def copy(self):
        return SymBytes(self.items)

    def clear(self):
        self.items.clear()

    def is_closing(self):  # never; placeholder to catch misuse
        raise AttributeError


def _check_byte(x):
    if isinstance(x, SymInt):
        if x.lo < 0 or x.hi > 255:
            if not (x >= 0) & (x <= 255):
                raise ValueError("byte must be in range(0, 256)")
        return x
    if isinstance(x, SymBool):
        return x._as_int()
    if not isinstance(x, int):
        raise TypeError(f"'{type(x).__name__}' object cannot be interpreted as an integer")
    if not 0 <= x <= 255:
        raise ValueError("byte must be in range(0, 256)")
    return int(x)


def to_symbytes(x):
    if isinstance(x, SymBytes):
        return x
    return SymBytes(list(x))


# ----------------------------------------------------------------------------- str

def _truth(x):
    """bool() of a possibly symbolic condition (forks when symbolic)."""
    return bool(x)


class Utf8Str:
    """A str represented by its (already validated) UTF-8 bytes."""

    __slots__ = ("items",)

    def __init__(self, items):
        self.items = list(items)

    @staticmethod
    def of(s):
        if isinstance(s, Utf8Str):
            return s
        return Utf8Str(list(s.encode("utf-8")))

    def concrete(self):
        return all(isinstance(x, int) for x in self.items)

    def to_str(self):
        return bytes(self.items).decode("utf-8")

    def encode(self, encoding="utf-8", errors="strict"):
        enc = str(encoding).lower().replace("_", "-")
        if enc not in ("utf-8", "utf8"):
            raise EngineUnsupported(f"encode with {encoding}")
        return SymBytes(self.items)

    def __bool__(self):
        return bool(self.items)

    def __eq__(self, o):
        if isinstance(o, str):
            o = Utf8Str.of(o)
        if not isinstance(o, Utf8Str):
            return False
        return SymBytes(self.items) == SymBytes(o.items)

    def __ne__(self, o):
        r = self.__eq__(o)
        return (not r) if isinstance(r, bool) else ~r

    def __hash__(self):
        # equal strings have equal byte length; a constant-per-length hash is a legal hash.
        return hash(("utf8str", len(self.items)))

    def __add__(self, o):
        return Utf8Str(self.items + Utf8Str.of(o).items)

    def __radd__(self, o):
        return Utf8Str(Utf8Str.of(o).items + self.items)

    def join(self, parts):
        out = []
        first = True
        for p in parts:
            if not first:
                out.extend(self.items)
            out.extend(Utf8Str.of(p).items)
            first = False
        return Utf8Str(out)

    def split(self, sep=None, maxsplit=-1):
        if sep is None:
            raise EngineUnsupported("str.split() on whitespace")
        parts = SymBytes(self.items).split(Utf8Str.of(sep).items, maxsplit)
        # splitting valid UTF-8 on an ASCII separator keeps every part valid UTF-8
        if any(b >= 0x80 for b in Utf8Str.of(sep).items):
            raise EngineUnsupported("split on non-ASCII separator")
        return [Utf8Str(p.items) for p in parts]

    def __contains__(self, sub):
        return Utf8Str.of(sub).items in _SubseqView(self.items)

    # ---- whitespace stripping (str.strip/lstrip/rstrip without argument) -------------------------------------
    # the characters str.isspace() accepts, as UTF-8: one byte 09-0D 1C-1F 20; two bytes C2 85, C2 A0; three bytes
    # E1 9A 80, E2 80 80..8A, E2 80 A8/A9/AF, E2 81 9F, E3 80 80 (validated against str.strip in the self-test)
    @staticmethod
    def _ws1(b):
        return sym_or(sym_and(b >= 0x09, b <= 0x0D), sym_and(b >= 0x1C, b <= 0x20))

    @staticmethod
    def _ws2(a, b):
        return sym_and(a == 0xC2, sym_or(b == 0x85, b == 0xA0))

    @staticmethod
    def _ws3(a, b, c):
        return sym_or(sym_and(a == 0xE1, b == 0x9A, c == 0x80),
                      sym_and(a == 0xE2, b == 0x80, sym_or(sym_and(c >= 0x80, c <= 0x8A), c == 0xA8, c == 0xA9, c == 0xAF)),
                      sym_and(a == 0xE2, b == 0x81, c == 0x9F), sym_and(a == 0xE3, b == 0x80, c == 0x80))

    def _lead_ws(self, it):
        """Number of bytes of the whitespace character at the start of it (0 = none); forks on symbolic bytes."""
        if len(it) >= 1 and _truth(self._ws1(it[0])):
            return 1
        if len(it) >= 2 and _truth(self._ws2(it[0], it[1])):
            return 2
        if len(it) >= 3 and _truth(self._ws3(it[0], it[1], it[2])):
            return 3
        return 0

    def _trail_ws(self, it):
        n = len(it)
        if n >= 1 and _truth(self._ws1(it[-1])):
            return 1
        if n >= 2 and _truth(self._ws2(it[-2], it[-1])):
            return 2
        if n >= 3 and _truth(self._ws3(it[-3], it[-2], it[-1])):
            return 3
        return 0

    def lstrip(self, chars=None):
        if self.concrete():
            return Utf8Str.of(self.to_str().lstrip(None if chars is None else str(chars)))
        if chars is not None:
            raise EngineUnsupported("str.lstrip(chars) on a symbolic string")
        it = list(self.items)
        while it:
            k = self._lead_ws(it)
            if not k:
                break
            it = it[k:]
        return Utf8Str(it)

    def rstrip(self, chars=None):
        if self.concrete():
            return Utf8Str.of(self.to_str().rstrip(None if chars is None else str(chars)))
        if chars is not None:
            raise EngineUnsupported("str.rstrip(chars) on a symbolic string")
        it = list(self.items)
        while it:
            k = self._trail_ws(it)
            if not k:
                break
            it = it[:-k]
        return Utf8Str(it)

    def strip(self, chars=None):
        if self.concrete():
            return Utf8Str.of(self.to_str().strip(None if chars is None else str(chars)))
        return self.lstrip(chars).rstrip(chars)

    def __getattr__(self, name):
        # any other str method: exact on concrete strings, unsupported (inconclusive, never "held") on symbolic ones
        if name.startswith("__") or not hasattr(str, name):
            raise AttributeError(name)

        def call(*a, **k):
            if not self.concrete():
                raise EngineUnsupported(f"str.{name} on a symbolic string")
            a = [x.to_str() if isinstance(x, Utf8Str) and x.concrete() else x for x in a]
            r = getattr(self.to_str(), name)(*a, **k)
            if isinstance(r, str):
                return Utf8Str.of(r)
            if isinstance(r, (list, tuple)) and all(isinstance(x, str) for x in r):
                return type(r)(Utf8Str.of(x) for x in r)
            return r
        return call

    def __len__(self):
        if self.concrete():
            return len(self.to_str())
        # code points of valid UTF-8 = bytes that are not continuation bytes (10xxxxxx)
        n = 0
        for b in self.items:
            if isinstance(b, int):
                n = n + (0 if (b & 0xC0) == 0x80 else 1)
            else:
                n = n + sym_ite((b & 0xC0) == 0x80, 0, 1)
        return n.__index__() if isinstance(n, SymInt) else n

    def __repr__(self):
        if self.concrete():
            return repr(self.to_str())
        return f"Utf8Str({len(self.items)}B)"

    def __str__(self):
        if self.concrete():
            return self.to_str()
        return "<utf8str>"

    def __format__(self, spec):
        return str(self)


class _SubseqView:
    def __init__(self, items):
        self.items = items

    def __contains__(self, sub):
        return SymBytes(self.items).__contains__(sub)


class ConstStr(str):
    """Module-level str constant that can join/compare symbolic strings."""

    def join(self, parts):
        parts = list(parts)
        if any(isinstance(p, Utf8Str) for p in parts):
            return Utf8Str.of(str(self)).join(parts)
        return str.join(self, parts)

    def __eq__(self, o):
        if isinstance(o, Utf8Str):
            return o.__eq__(str(self))
        return str.__eq__(self, o)

    def __ne__(self, o):
        r = self.__eq__(o)
        return (not r) if isinstance(r, bool) else ~r

    __hash__ = str.__hash__


# ----------------------------------------------------------------------------- enums

class EnumProxy:
    """Lazy enum member: the class is known, the member is a SymInt value (member-valued on this path)."""

    def __init__(self, cls, value):
        object.__setattr__(self, "_cls", cls)
        object.__setattr__(self, "_v", value)

    @property
    def __class__(self):
        return self._cls

    @property
    def value(self):
        return self._v

    @property
    def _value_(self):
        return self._v

    @property
    def name(self):
        return self._concrete().name

    def _concrete(self):
        for m in self._cls:
            if self._v == m.value:
                return m
        raise AssertionError("EnumProxy value is not a member (engine bug)")

    def __eq__(self, o):
        if isinstance(o, EnumProxy):
            return (self._v == o._v) if o._cls is self._cls else False
        if type(o) is self._cls:
            return self._v == o.value
        return False

    def __ne__(self, o):
        r = self.__eq__(o)
        return (not r) if isinstance(r, bool) else ~r

    def __hash__(self):
        return hash(self._concrete())

    def __repr__(self):
        return f"<{self._cls.__name__}~sym>"

    def __format__(self, spec):
        return repr(self)

    def __reduce__(self):
        raise EngineUnsupported("pickling EnumProxy")


def enum_resolve(x):
    return x._concrete() if isinstance(x, EnumProxy) else x


# ----------------------------------------------------------------------------- concretisation for observations

def fpnum_to_float(r):
    if not z3.is_fp_value(r):
        return None
    bv = z3.simplify(z3.fpToIEEEBV(r))
    if not z3.is_bv_value(bv):
        if r.isNaN():
            return math.nan
        return None
    return _struct.unpack("<d", _struct.pack("<Q", bv.as_long()))[0]


def concretise(ctx, v):
    """Concrete python value of v under ctx.model (for traces and samples)."""
    if isinstance(v, SymInt):
        return _model_value(ctx, v.e)
    if isinstance(v, SymBool):
        r = ctx.eval_model(v.e)
        return r
    if isinstance(v, SymReal):
        names = core.expr_vars(v.e)
        subs = [(ctx.vars[n], ctx._val_expr(n, ctx.vars[n])) for n in names]
        r = z3.simplify(z3.substitute(v.e, *subs)) if subs else z3.simplify(v.e)
        if z3.is_rational_value(r):
            return float(Fraction(r.numerator_as_long(), r.denominator_as_long()))
        return None
    if isinstance(v, SymFloat):
        names = core.expr_vars(v.e)
        subs = [(ctx.vars[n], ctx._val_expr(n, ctx.vars[n])) for n in names]
        r = z3.simplify(z3.substitute(v.e, *subs)) if subs else z3.simplify(v.e)
        return fpnum_to_float(r)
    if isinstance(v, SymBytes):
        return bytes(concretise(ctx, x) for x in v.items)
    if isinstance(v, Utf8Str):
        return bytes(concretise(ctx, x) for x in v.items).decode("utf-8", "replace")
    if isinstance(v, EnumProxy):
        val = concretise(ctx, v._v)
        for m in v._cls:
            if m.value == val:
                return m
        return None
    if isinstance(v, (list, tuple)):
        return type(v)(concretise(ctx, x) for x in v)
    if isinstance(v, dict):
        return {concretise(ctx, k): concretise(ctx, x) for k, x in v.items()}
    return v
