"""Virtual-time event loops.

VLoop      : minimal deterministic loop whose clock may be symbolic (SymReal). Real
             asyncio.Task / Future / Event / timeout / sleep / wait_for / as_completed run on it.
             Contract modelled: ready callbacks run FIFO; a timer never fires before its
             deadline; among due timers the earliest deadline fires first, ties in
             scheduling order; the clock jumps to the next deadline when nothing is ready.
StockVLoop : the stock asyncio.SelectorEventLoop with a virtualised clock and selector —
             used for concrete replay (no proxies, no shims).
"""
from __future__ import annotations

import asyncio
import collections
import selectors

from . import core
from .core import EngineUnsupported, Inconclusive
from .values import SymBool, SymReal


class VLoop(asyncio.AbstractEventLoop):
    def __init__(self, start=0):
        self._now = start
        self._ready = collections.deque()
        self._timers = []
        self.exceptions = []
        self._closed = False
        self._steps = 0
        self.max_steps = 200000

    # -- clock / scheduling ------------------------------------------------------
    def time(self):
        return self._now

    def call_soon(self, cb, *args, context=None):
        h = asyncio.Handle(cb, args, self, context)
        self._ready.append(h)
        return h

    call_soon_threadsafe = call_soon

    def call_at(self, when, cb, *args, context=None):
        if when is None:
            raise TypeError("when cannot be None")
        h = asyncio.TimerHandle(when, cb, args, self, context)
        h._scheduled = True
        self._timers.append(h)
        return h

    def call_later(self, delay, cb, *args, context=None):
        if delay is None:
            raise TypeError("delay must not be None")
        return self.call_at(self._now + delay, cb, *args, context=context)

    def _timer_handle_cancelled(self, h):
        pass

    def create_future(self):
        return asyncio.Future(loop=self)

    def create_task(self, coro, *, name=None, context=None):
        if context is None:
            return asyncio.Task(coro, loop=self, name=name)
        return asyncio.Task(coro, loop=self, name=name, context=context)

    def call_exception_handler(self, ctx):
        self.exceptions.append(ctx)

    def default_exception_handler(self, ctx):
        self.exceptions.append(ctx)

    def get_debug(self):
        return False

    def is_running(self):
        return True

    def is_closed(self):
        return self._closed

    def close(self):
        self._closed = True

    async def shutdown_asyncgens(self):
        pass

    # -- introspection used by monitors ----------------------------------------------
    def pending_timers(self):
        return [t for t in self._timers if not t._cancelled]

    def pending_ready(self):
        return [h for h in self._ready if not h._cancelled]

    def idle(self):
        return not self.pending_timers() and not self.pending_ready()

    # -- running -------------------------------------------------------------------
    @staticmethod
    def _truth(b):
        return bool(b)  # forks on SymBool

    def _earliest(self):
        """Earliest timer; ties between concrete deadlines go to the one scheduled first. Two timers whose
        deadlines can be *symbolically* equal are an exact tie: the stock loop's heap and this loop may order
        them differently, so that execution is pruned (counted as an aborted path; outside every claim)."""
        best = None
        for t in self._timers:
            if t._cancelled:
                continue
            if best is None:
                best = t
                continue
            lt = t._when < best._when
            if isinstance(lt, SymBool):
                if self._truth(lt):
                    best = t
                elif not self._same_instant(t._when, best._when) and self._truth(t._when == best._when):
                    raise core.PathAbort("tie: two timers at exactly the same symbolic instant")
            elif lt:
                best = t
        return best

    @staticmethod
    def _same_instant(a, b):
        """Structurally the same deadline (e.g. two timers both armed for t+300): an ordinary tie, resolved by
        scheduling order exactly as for concrete deadlines — not a coincidence of independent instants."""
        import z3
        ea = a.e if isinstance(a, SymReal) else z3.RealVal(a)
        eb = b.e if isinstance(b, SymReal) else z3.RealVal(b)
        d = z3.simplify(ea - eb)
        return z3.is_rational_value(d) and d.numerator_as_long() == 0

    def run(self, until=None):
        """Run until no work is left that is due at or before `until` (None: until idle)."""
        asyncio._set_running_loop(self)
        try:
            while True:
                self._steps += 1
                if self._steps > self.max_steps:
                    raise Inconclusive("virtual loop step limit reached (livelock or horizon too large)")
                if self._ready:
                    h = self._ready.popleft()
                    if not h._cancelled:
                        h._run()
                        core.raise_pending()
                    h = None
                    continue
                self._timers = [t for t in self._timers if not t._cancelled]
                best = self._earliest()
                if best is None:
                    if until is not None and self._truth(self._now < until):
                        self._now = until
                    return
                if until is not None and self._truth(best._when > until):
                    if self._truth(self._now < until):
                        self._now = until
                    return
                self._timers.remove(best)
                if self._truth(self._now < best._when):
                    self._now = best._when
                best._scheduled = False
                self._ready.append(best)
        finally:
            asyncio._set_running_loop(None)

    vt_run = run

    def vt_now(self):
        return self._now

    def vt_call_at(self, when, fn):
        """Schedule a plain callable at virtual time `when` (>= now). The handle is remembered as the harness's own."""
        h = self.call_at(when, fn)
        self.__dict__.setdefault("harness_handles", set()).add(id(h))
        return h

    def client_timers(self):
        """Pending timers that were not scheduled by the harness through vt_call_at()."""
        mine = self.__dict__.get("harness_handles", set())
        return [t for t in self.pending_timers() if id(t) not in mine]

    def vt_close(self):
        self._closed = True


class _VSelector(selectors.BaseSelector):
    """Selector that never waits: advances the loop's virtual clock instead."""

    def __init__(self, loop):
        self._loop = loop
        self._map = {}

    def register(self, fileobj, events, data=None):
        key = selectors.SelectorKey(fileobj, fileobj if isinstance(fileobj, int) else fileobj.fileno(), events, data)
        self._map[fileobj] = key
        return key

    def unregister(self, fileobj):
        return self._map.pop(fileobj)

    def modify(self, fileobj, events, data=None):
        self.unregister(fileobj)
        return self.register(fileobj, events, data)

    def select(self, timeout=None):
        lp = self._loop
        if timeout is None or timeout > 0:
            sched = lp._scheduled
            if sched:
                nxt = min(h._when for h in sched if not h._cancelled) if any(not h._cancelled for h in sched) else None
                if nxt is not None and nxt > lp._vtime:
                    lp._vtime = nxt
            else:
                # nothing will ever happen: stop instead of blocking forever
                lp.stop()
        return []

    def get_map(self):
        return self._map

    def close(self):
        self._map.clear()


class StockVLoop(asyncio.SelectorEventLoop):
    """asyncio's own loop implementation on a virtual clock (for concrete replay)."""

    def __init__(self, start=0.0):
        self._vtime = float(start)
        super().__init__(selector=_VSelector(self))
        self.exceptions = []
        self.set_exception_handler(lambda loop, ctx: self.exceptions.append(ctx))
        self._clock_resolution = 2.0 ** -40

    def time(self):
        return self._vtime

    def _make_self_pipe(self):
        # no real file descriptors needed
        self._ssock = None
        self._csock = None
        self._internal_fds = 0

    def _close_self_pipe(self):
        pass

    def _write_to_self(self):
        pass

    def vt_run(self, until=None):
        """Run the stock loop one iteration at a time until nothing is due at or before `until`."""
        n = 0
        while True:
            n += 1
            if n > 200000:
                raise RuntimeError("stock virtual loop: step limit")
            live = [h for h in self._scheduled if not h._cancelled]
            if not self._ready and not live:
                break
            if not self._ready:
                nxt = min(h._when for h in live)
                if until is not None and nxt > until:
                    break
                if nxt > self._vtime:
                    self._vtime = nxt
            self.call_soon(self.stop)
            self.run_forever()
            core.raise_pending()
        if until is not None and self._vtime < until:
            self._vtime = until

    run = vt_run

    def vt_now(self):
        return self._vtime

    def vt_call_at(self, when, fn):
        h = self.call_at(when, fn)
        self.__dict__.setdefault("harness_handles", set()).add(id(h))
        return h

    def client_timers(self):
        mine = self.__dict__.get("harness_handles", set())
        return [t for t in self.pending_timers() if id(t) not in mine]

    def pending_timers(self):
        return [t for t in self._scheduled if not t._cancelled]

    def pending_ready(self):
        # (the driver steps the stock loop with run_forever()/stop(): its own stop handle is not a handle of the code under test)
        return [h for h in self._ready if not h._cancelled and getattr(h._callback, "__name__", "") != "stop"]

    def idle(self):
        return not self.pending_timers() and not self.pending_ready()

    def vt_close(self):
        try:
            self.close()
        except Exception:
            pass


def make_loop(ctx):
    return VLoop() if ctx.symbolic else StockVLoop()
