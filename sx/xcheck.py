"""Second opinion: re-discharge a z3 query with cvc5 (python wheel) via SMT-LIB2 text."""
import time

import z3


def cvc5_check(assertions, timeout_s=300, logic=None):
    """Returns ('sat'|'unsat'|'unknown'|'unavailable', seconds)."""
    try:
        import cvc5
    except Exception:
        return "unavailable", 0.0
    s = z3.Solver()
    s.add(*assertions)
    text = s.to_smt2()
    t0 = time.time()
    try:
        slv = cvc5.Solver()
        slv.setOption("tlimit-per", str(int(timeout_s * 1000)))
        slv.setOption("produce-models", "false")
        parser = cvc5.InputParser(slv)
        parser.setStringInput(cvc5.InputLanguage.SMT_LIB_2_6, ("(set-logic %s)\n" % (logic or "ALL")) + text, "q")
        sm = parser.getSymbolManager()
        res = None
        while True:
            cmd = parser.nextCommand()
            if cmd.isNull():
                break
            out = cmd.invoke(slv, sm)
            name = cmd.getCommandName()
            if name == "check-sat":
                res = str(out).strip()
        if res is None:
            res = str(slv.checkSat())
    except Exception as e:  # noqa: BLE001
        return "unknown", time.time() - t0
    return ("sat" if res.startswith("sat") else "unsat" if res.startswith("unsat") else "unknown"), time.time() - t0
