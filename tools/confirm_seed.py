#!/usr/bin/env python3
"""Confirm a candidate seeded change in a scratch worktree of /repo (outside /repo and /verif):
demo passes without the change; with it the pinned tests still pass and the demo fails.
Usage: confirm_seed.py <candidate_dir> <name> [--check PID ...]  -> copies to /verif/seeded/<name>/ when confirmed."""
import json, os, shutil, subprocess, sys, tempfile

cand, name = os.path.abspath(sys.argv[1]), sys.argv[2]        # name "-": confirm only, copy nothing
checks = sys.argv[4:] if len(sys.argv) > 3 and sys.argv[3] == "--check" else []
wt = tempfile.mkdtemp(prefix="confirm_wt_", dir="/tmp")
os.rmdir(wt)
def run(cmd, cwd=None, timeout=900):
    p = subprocess.run(cmd, cwd=cwd, shell=True, capture_output=True, text=True, timeout=timeout)
    return p.returncode, (p.stdout + p.stderr)[-1500:]
res = {}
try:
    rc, out = run(f"git -C /repo worktree add -q --detach {wt} HEAD"); assert rc == 0, out
    demo = os.path.join(cand, "demo.py")
    res["demo_without"] = run(f"/venv/bin/python {demo}", cwd=wt)[0]
    rc, out = run(f"git apply {os.path.join(cand, 'patch.diff')}", cwd=wt); res["apply"] = rc
    rc, out = run("/venv/bin/python -m pytest -q -p no:cacheprovider 2>&1 | tail -1", cwd=wt); res["tests"] = out.strip()
    res["demo_with"] = run(f"/venv/bin/python {demo}", cwd=wt)[0]
finally:
    run(f"git -C /repo worktree remove --force {wt}")
ok = res.get("demo_without") == 0 and res.get("apply") == 0 and "272 passed" in res.get("tests", "") and res.get("demo_with", 0) != 0
res["confirmed"] = ok
print(json.dumps(res))
if ok and name != "-" and os.path.abspath(cand) != os.path.join("/verif/seeded", name):
    dst = os.path.join("/verif/seeded", name)
    os.makedirs(dst, exist_ok=True)
    for f in ("patch.diff", "demo.py"):
        shutil.copy(os.path.join(cand, f), os.path.join(dst, f))
    meta = json.load(open(os.path.join(cand, "meta.json")))
    meta["confirmed_by_builder"] = {"worktree": "scratch worktree of /repo HEAD under /tmp (removed afterwards)",
                                    "demo_exit_without_change": res["demo_without"], "tests_with_change": res["tests"],
                                    "demo_exit_with_change": res["demo_with"]}
    json.dump(meta, open(os.path.join(dst, "meta.json"), "w"), indent=1)
