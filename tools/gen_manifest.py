#!/usr/bin/env python3
"""Regenerates MANIFEST.json from checks/registry (single source of truth)."""
import json, os, sys
HERE = os.path.dirname(os.path.dirname(os.path.abspath(__file__)))
sys.path.insert(0, HERE)
from checks.registry import CLAIMS, NOT_APPLICABLE

BASE_OFF = "cd /repo && /venv/bin/python -m pytest -ra -q -p no:cacheprovider --timeout=900 --continue-on-collection-errors"
man = {
    "version": 1,
    "setup_cmd": "./setup.sh",
    "hooks": {
        "guard": "PYAIRTOUCH_VERIF",
        "enable": "no hooks: the checks import /repo's working tree unmodified; the guard name is reserved and unused",
        "baseline_off_cmd": BASE_OFF,
        "source_commits": [],
        "add_only": True,
    },
    "engines": [
        {"name": "sx", "path": "sx/", "serves_properties": sorted(CLAIMS),
         "kind_free_text": "proxy-based symbolic execution of the real pyairtouch functions with z3 (BV64/Float64/Real), replay-based DFS over solver-decided branches, virtual-time asyncio loop"},
    ],
    "checks": [],
    "not_applicable": [{"property_id": k, "reason": v} for k, v in sorted(NOT_APPLICABLE.items())],
    "notes": "Exit codes: 0 held within bounds, 1 VIOLATION (replayed on unmodified code), 2 inconclusive, 3 harness error. See DESIGN.md.",
}
for pid in sorted(CLAIMS):
    c = CLAIMS[pid]
    man["checks"].append({
        "property_id": pid,
        "quick_cmd": f"./check {pid} --tier quick",
        "thorough_cmd": f"./check {pid} --tier thorough",
        "evidence_file": f"evidence/{pid}.json",
        "replay_cmd_template": "./check --replay {path}",
        "engine": "sx",
        "level_claimed": {"category": "model_checking", "text": c["text"], "design_ref": c.get("design_ref", "DESIGN.md section 6")},
        "level_note": c["note"],
        "technique": c["technique"],
    })
json.dump(man, open(os.path.join(HERE, "MANIFEST.json"), "w"), indent=1)
print("wrote MANIFEST.json with", len(man["checks"]), "checks,", len(man["not_applicable"]), "not_applicable")
