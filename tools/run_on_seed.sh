#!/bin/sh
# run_on_seed.sh <seed name> <PID> [tier]: apply /verif/seeded/<name>/patch.diff to /repo, run the check, undo.
cd /verif
git -C /repo apply /verif/seeded/$1/patch.diff || exit 9
./check $2 --tier ${3:-quick} > /tmp/seedrun_$1_$2.log 2>&1; rc=$?
git -C /repo checkout -- .
echo "$1 $2 exit=$rc $(grep -c '^VIOLATION' /tmp/seedrun_$1_$2.log) violation lines; $(tail -1 /tmp/seedrun_$1_$2.log | cut -c1-80)"
