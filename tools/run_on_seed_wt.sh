#!/bin/sh
# run_on_seed_wt.sh <seed name> <PID> [tier]: like run_on_seed.sh, but in a scratch worktree of /repo (VERIF_REPO),
# so that /repo itself is not touched (safe while other checks are running). Evidence goes to a scratch directory.
cd /verif
wt=/tmp/seedwt_$1
git -C /repo worktree add -q --detach $wt HEAD || exit 9
git -C $wt apply /verif/seeded/$1/patch.diff || { git -C /repo worktree remove --force $wt; exit 9; }
VERIF_REPO=$wt VERIF_EVIDENCE_DIR=/tmp/seed_evidence ./check $2 --tier ${3:-quick} > /tmp/seedrun_$1_$2.log 2>&1; rc=$?
git -C /repo worktree remove --force $wt
echo "$1 $2 exit=$rc $(grep -c '^VIOLATION' /tmp/seedrun_$1_$2.log) violation lines; $(tail -1 /tmp/seedrun_$1_$2.log | cut -c1-80)"
