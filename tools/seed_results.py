#!/usr/bin/env python3
"""Rebuild seeded/RESULTS.md and the caught_by entries of seeded/*/meta.json from the logs of tools/run_on_seed_wt.sh
(/tmp/seedrun_<name>_<PID>.log). Usage: seed_results.py"""
import json, os, re

STRENGTHENED = {
    "C02_1": "API-level instances (fault on the command's first write)", "C02_2": "back-pressure + expiry instance", "C03_1": "len() of symbolic strings",
    "C07_1": "connection subscriber that sends (as the API does)", "C09_1": "foreign-addressed requests as extra frames", "C11_2": "0.01 degC grid",
    "C10_2": "non-contiguous AC numbers", "C13_1": "read() contract in reader stubs", "C13_2": "read() contract in reader stubs", "C08_2": "outage spanning a deadline",
    "C14_2": "loss that shows up as a write error", "C12_2": "console that never supplies the error text", "C18_1": "same-id twin consoles", "C18_2": "decode(errors!=strict) support",
    "C01_3": "identical commands submitted twice", "C03_3": "empty group set in ability records", "C07_3": "non-ConnectionError OSError re-raised by wait_closed()",
    "C08_3": "second session after shutdown (also caught by C15)", "C10_3": "version frame with unchanged text and flipped flag", "C12_3": "arrangement of the AC-state-only subscriber",
    "C17_4": "AT5 AC-status / timer-status strides through the socket", "C19_4": "shared error/version history instance",
    "C09_5": "unusual zone names (empty, free two-byte, full width)", "C10_6": "direct change of the error code with new / no text", "C11_5": "two timer calls in a row with / without a report in between",
    "C03_5": "AT5 zero-record reports are not identified with requests", "C04_5": "AT5 zone set-points beyond the field", "C04_6": "durations with a seconds part",
    "C07_5": "raising connection-changed subscriber", "C07_6": "transport-loss model: is_closing() true after a fatal transport error", "C17_6": "AT5 sub-header edge cases (length/count in {0,1,known-1,known,known+2}x{0,1,2})",
    "C13_5": "long frames (payload > 128 / > 255 bytes)", "C13_6": "free pauses (up to 400 s) between segments", "C14_5": "loss as EOF in the middle of a frame",
    "C16_5": "eleventh message sent with each predefined policy object", "C16_6": "send_with_header() on a socket that is not open",
    "C06_6": "verdict independent of earlier frames (validate twice; damaged copy behind the intact frame); process-wide state reset per path",
    "C19_5": "free zone / AC names; str.strip modelled",
    "C02_7": "AT4 group poll as an internal request whose write fails", "C03_8": "names up to the full field width (also ending in a two-byte character)",
    "C04_7": "two-call histories on a two-AC system (timer frames); process-state reset covers in-place buffers", "C04_8": "two calls held over an outage (same zone / other zone)",
    "C05_7": "a report with another record stride decoded earlier by the same decoder", "C06_8": "six damaged frames in a row, one per connection",
    "C07_8": "thirty refusals in a row before the console accepts again", "C08_8": "AirTouch 5 without zones", "C10_7": "complete report, partial report, the same complete report",
    "C11_8": "last reported AT4 mode free for set-point requests", "C12_7": "one callback in both roles, withdrawn from one", "C12_8": "unsubscribe while the handler is suspended in a held-up write",
    "C13_8": "byte-identical frames in a row (same packet id)", "C14_7": "reconnection in the middle of group silence", "C14_8": "unanswered refresh followed by another loss",
    "C15_7": "init() again while the old connect is still in flight", "C15_8": "closing the transport takes 50 ms", "C16_8": "eleventh request through every public API call",
    "C17_7": "free to/from addresses on unknown frames",
    "C09_9": "second init() while the slow first connect is still pending",
    "C03_w7": "two messages of one class held together and flushed in one go; catalogue error texts of different lengths",
    "C05_w7": "bytes.rstrip modelled; name fields with bytes behind the terminator were already free (first a self-test failure, exit 3)",
    "C06_w7": "closing the connection of the damaged frame reports an OSError itself", "C07_w7": "half-open connection first written to by a command without retries",
    "C08_w7": "the silent link's close reports ETIMEDOUT / EHOSTUNREACH", "C09_w7": "request order of the handshake after a second init() (slow connect, after shutdown)",
    "C12_w7": "one frame changing every zone / both ACs with a failing subscriber on an entity or on the socket",
    "C13_w7": "end of stream behind the last frame (FIN on the last segment or later); at_eof() in the reader stub (first a non-replaying counterexample, exit 3)",
    "C14_w7": "the 300 s group deadline falls into an outage with nine or ten commands held", "C15_w7": "close() during the tear-down that follows a failed write (slow transport close)",
    "C16_w7": "flush held up by back-pressure while held entries pass their expiry", "C17_w7": "extended frames whose inner text length disagrees with the frame",
    "C18_w7": "another datagram (echo, short, foreign, invalid text) ahead of the console's answer", "C19_w7": "quick-timer durations with a seconds part",
    "C01_w8": "nine or ten held messages and a request sent from inside the connected notification", "C09_w8": "init() with the process-wide packet counter at any value",
    "C10_w8": "one frame naming the same zone / AC twice", "C11_w8": "AT4 zones that differ in turbo support, asked in either order",
    "C12_w8": "a zone the client does not know at any place in a multi-entity frame", "C14_w8": "the new connection dies at the refresh's own write (C07 caught it as it stood)",
    "C07_w8": "fixed story with free instants, a slow transport close and no request from the connected notification (also exposed KF-C07-4)",
    "C17_w8": "AT4 frame with a damaged (smaller) length whose payload contains the image of a valid frame",
    "C01_10": "a write stalled for up to 25 s without a fault", "C02_10": "writes failing together across the wrap of the packet counter",
    "C04_10": "AT5 mode change with a reported set-point outside the other mode's range", "C06_10": "damaged frame followed by the start of another in the same segment (also: SymBytes.__delitem__, connection cap against reset storms)",
    "C07_10": "a console that takes up to 20 s to accept", "C09_10": "AT5 zone numbering with a gap", "C14_10": "a frame left buffered on the abandoned connection while a subscriber is slow",
    "C01_9": "three held messages and a send while their flush is held up in drain()", "C08_9": "ten commands held for the dead link when a heartbeat falls due",
    "C15_9": "close() while two connection attempts are pending after a failed first write", "C16_9": "all eleven sends inside a slow connection attempt", "C12_9": "subscribers given as bound methods",
    "C17_9": "ability records longer than known through the socket (also caught by C05 as it stood)", "C18_9": "unicast search answered from another source address", "C18_7": "second search() on the same discoverer", "C19_8": "unsolicited report interleaved in the handshake of both consoles", "C15_6": "shutdown racing a handshake answer at loop-turn granularity (also exposed KF-C15-2)",
}
rows = []
for name in sorted(os.listdir('/verif/seeded')):
    d = f'/verif/seeded/{name}'
    if not os.path.isdir(d) or not os.path.exists(d + '/meta.json'):
        continue
    meta = json.load(open(d + '/meta.json'))
    pid = name.split('_')[0]
    log = f'/tmp/seedrun_{name}_{pid}.log'
    res, lab = meta.get('caught_by', {}).get('result', '?'), meta.get('caught_by', {}).get('label', '')
    if os.path.exists(log):
        t = open(log).read()
        res = 'VIOLATION (exit 1)' if 'VIOLATION property' in t else ('missed' if 'HELD' in t else 'error')
        m = re.search(r'label=(\S+)', t)
        lab = m.group(1) if m else ''
    meta['caught_by'] = {'check': pid, 'tier': 'quick', 'result': res, 'label': lab, 'strengthened': STRENGTHENED.get(name)}
    meta['breaks_property'] = pid
    json.dump(meta, open(d + '/meta.json', 'w'), indent=1)
    extra = f" (strengthened: {STRENGTHENED[name]})" if name in STRENGTHENED else ""
    rows.append(f"| {name} | {pid} | {str(meta.get('needs', ''))[:170].replace('|', '/')} | {res}{extra} | {lab} |")
head = open('/verif/seeded/RESULTS.md').read().split('|---|---|---|---|---|')[0] + '|---|---|---|---|---|\n'
open('/verif/seeded/RESULTS.md', 'w').write(head + '\n'.join(rows) + '\n')
print(len(rows), sum('VIOLATION' in r for r in rows), [r.split('|')[1].strip() for r in rows if 'VIOLATION' not in r])
